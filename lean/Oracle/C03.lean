/-
  Oracle.C03 — reads the lines of harness/cmd/c03 (operation, output, dump of the real
  table, key hashes) and answers one line per input line: `ok <tags>` or
  `FAIL <tag> <detail> [;; FAIL …]`.

  Level A (tags A-*): the outputs of the real table against `Spec.Map` — the value most
  recently assigned to an equal key after normalisation, `isBorder` for `#t`, the
  traversal relation for `next`/`pairs` (never equality with a particular order or
  border), `__newindex`/`__index` consulted iff the raw key is absent.
  Level B (tags B-*): `Model.Table` run with the hashes exported by the hook must give the
  same outputs and, after every mutation, exactly the dumped state.
  `inv`: the decidable `Model.Table.Inv` — the invariant of the theorems — evaluated on
  every dump (a run-time monitor, not a proof).
-/
import Oracle.Proto
import GoluaVerif.Spec.Map
import GoluaVerif.Model.Table
import GoluaVerif.Model.TableInv
import GoluaVerif.Model.Index
import GoluaVerif.Generated.Comp
namespace Oracle.C03
open GoluaVerif GoluaVerif.Spec GoluaVerif.Model.Table Oracle

/-- K token → raw key, and whether it is the second object of a reference class (`r3b`) -/
def parseKey (s : String) : Option (RawKey × Bool) :=
  if s.isEmpty then none else
  let rest := (s.drop 1).toString
  match s.front with
  | 'n' => some (.nil, false)
  | 't' => some (.bool true, false)
  | 'F' => some (.bool false, false)
  | 'i' => rest.toInt?.map fun n => (.num (.int (BitVec.ofInt 64 n)), false)
  | 'f' => (parseHexNat rest).map fun n => (.num (.flt (F64.ofBits (UInt64.ofNat n))), false)
  | 's' => if rest.isEmpty then some (.str [], false) else (parseHexBytes rest).map fun b => (.str b.toList, false)
  | 'r' =>
    let twin := rest.endsWith "b"
    let digits := if twin then (rest.dropEnd 1).toString else rest
    digits.toNat?.map fun n => (.ref n, twin)
  | _ => none

/-- V token: any value — `n` (nil) | `F` | `t` | `i<dec>` | `f<16 hex>` | `s<hex>` | `r<class>[b]`.
    Non-nil values are opaque tokens for the spec (`Val = Nat`): the token is coded injectively, so
    `false`, `0`, `0.0`, `-0.0`, `""` and NaN bit patterns are pairwise different non-nil values and
    nil is `none` — a lookup answers `Option Val`, never a falsy value. -/
def parseVal (s : String) : Option (Option Val) :=
  if s.isEmpty then none else
  let rest := (s.drop 1).toString
  match s.front with
  | 'n' => if rest.isEmpty then some none else none
  | 'F' => some (some 2)
  | 't' => some (some 3)
  | 'i' => rest.toInt?.map fun n => some (8 * n.natAbs + (if n < 0 then 1 else 0))
  | 'f' => (parseHexNat rest).map fun n => some (8 * n + 4)
  | 's' => (parseHexNat ("1" ++ rest)).map fun n => some (8 * n + 5)
  | 'r' =>
    let twin := rest.endsWith "b"
    let digits := if twin then (rest.dropEnd 1).toString else rest
    digits.toNat?.map fun n => some (8 * (2 * n + (if twin then 1 else 0)) + 6)
  | _ => none

def toVal (v : Option Val) : Option Val := v

structure Sess where
  visited : List Key := []
  /-- keys present when the traversal started and not cleared since -/
  stable : List Key := []
  /-- false once a value was assigned to a non-existent field (manual: behaviour undefined) -/
  valid : Bool := true
  last : Option Key := none

structure St where
  leg : String := ""
  spec : Map := Map.empty
  keys : List Key := []
  model : Option Mixed := some Mixed.init
  hashes : List (Key × Nat) := []
  sess : Option Sess := none
  arrSize : Nat := 0
  arrLen : Nat := 0
  base : Option Nat := none
  /-- set when the hashes of this case are unusable (a key with two hashes) -/
  noB : Bool := false
  /-- the last mutation assigned a non-nil value to a field that was present -/
  lastAssignExisting : Bool := false
  /-- the table is not a sequence where a library function needs `#t`: the spec can no longer follow -/
  noA : Bool := false

def hashOf (hs : List (Key × Nat)) (k : Key) : Nat := (hs.lookup k).getD 0

def showKey : Key → String
  | .int z => "i" ++ toString z
  | .flt f => "f" ++ hexOfNat (F64.toBits f).toNat 16
  | .str s => "s" ++ hexOfBytes ⟨s.toArray⟩
  | .bool true => "t"
  | .bool false => "F"
  | .ref id => "r" ++ toString id

def showVal : Option Val → String
  | none => "n"
  | some v =>
    match v % 8 with
    | 0 => "i" ++ toString (v / 8)
    | 1 => "i-" ++ toString (v / 8)
    | 2 => "F"
    | 3 => "t"
    | 4 => "f" ++ hexOfNat (v / 8) 16
    | 5 => "s" ++ String.ofList ((Nat.toDigits 16 (v / 8)).drop 1)
    | 6 => "r" ++ toString (v / 8 / 2) ++ (if v / 8 % 2 == 1 then "b" else "")
    | _ => "?"

def showNext : NextRes → String
  | .invalid => "inv"
  | .done => "end"
  | .item k v => showKey k ++ " " ++ showVal (some v)

/-- the model state in the format of the dump line (without hashes) -/
def showMixed (m : Mixed) : String :=
  let a := match m.arr with
    | none => "A -1 0"
    | some a => " ".intercalate (["A", toString a.values.length, toString a.len] ++ a.values.map showVal)
  let h := match m.hash with
    | none => "H -1 -1 0"
    | some h => " ".intercalate (["H", toString h.base, (match h.nextFree with | none => "-1" | some f => toString f), toString h.slots.length] ++
        h.slots.map fun s => " ".intercalate [(match s.key with | none => "n" | some k => showKey k), showVal s.val, toString s.next,
          toString ((if s.hasNext then 1 else 0) + (if s.chained then 2 else 0))])
  a ++ " " ++ h

/-- record the hash of a key; `false` if the key already had a different hash -/
def addHash (st : St) (k : Key) (h : Nat) : St × Bool :=
  match st.hashes.lookup k with
  | some h' => (st, h == h')
  | none => ({ st with hashes := (k, h) :: st.hashes }, true)

def addKey (st : St) (k : Key) : St :=
  if st.keys.contains k then st else { st with keys := k :: st.keys }

def present (st : St) : List Key := st.keys.filter fun k => (st.spec k).isSome

/-- effect of an assignment on a running traversal -/
def sessAssign (st : St) (k : Key) (v : Option Val) (wasPresent : Bool) : St :=
  match st.sess with
  | none => st
  | some s =>
    let s := match v with
      | none => { s with stable := s.stable.erase k }
      | some _ => if wasPresent then s else { s with valid := false }
    { st with sess := some s }

structure Out where
  fails : List String := []
  tags : List String := []

def Out.fail (o : Out) (tag detail : String) : Out := { o with fails := o.fails ++ ["FAIL " ++ tag ++ " " ++ detail] }
def Out.tag (o : Out) (t : String) : Out := { o with tags := o.tags ++ [t] }
def Out.render (o : Out) : String :=
  if o.fails.isEmpty then " ".intercalate ("ok" :: o.tags) else " ;; ".intercalate o.fails

/-- the two hashes of an operation line: `<normalised>` or `<normalised>/<raw>` -/
def parseHashes (s : String) : Option (Nat × Option Nat) :=
  match s.splitOn "/" with
  | [a] => a.toNat?.map fun n => (n, none)
  | [a, b] => do pure (← a.toNat?, some (← b.toNat?))
  | _ => none

/-- the key of an operation line: raw value, key as supplied, normalised key; hash bookkeeping -/
def opKey (st : St) (o : Out) (ktok htok : String) : Option (RawKey × Option Key × Option Key × St × Out) := do
  let (rk, twin) ← parseKey ktok
  let (h, hraw) ← parseHashes htok
  match rk.toKey? with
  | none => pure (rk, none, none, st, o)
  | some kr =>
    let k := kr.norm
    let (st, good) := addHash st k h
    let (st, good) := match hraw with
      | some h' => if kr != k then (let (st, g) := addHash st kr h'; (st, good && g)) else (st, good)
      | none => (st, good)
    let st := addKey st k
    -- the Go key normalisation (regenerated `FloatToInt`) against the spec's, on every float key seen
    let o := match rk with
      | .num (.flt f) =>
        let g := Generated.Comp.FloatToInt f
        let agrees := match Num.floatToInt? f with
          | some n => g == (n, Generated.Comp.IsInt)
          | none => g.2 != Generated.Comp.IsInt
        if agrees then o else o.fail "B-normalise" ("FloatToInt and Spec.Num.floatToInt? differ on " ++ ktok)
      | _ => o
    if good then pure (rk, some kr, some k, st, o)
    else
      pure (rk, some kr, some k, { st with noB := true, model := none },
        o.fail "hash-not-function-of-key" ("values equal under == hash differently: " ++ ktok))

def modelHash (st : St) : Key → Nat := hashOf st.hashes

/-- run a model step that yields a new state -/
def stepB (st : St) (o : Out) (f : Mixed → Option Mixed) (what : String) : St × Out :=
  match st.model with
  | none => (st, o)
  | some m =>
    match f m with
    | some m' => ({ st with model := some m' }, o)
    | none => ({ st with model := none }, o.fail "B-model-panic" ("the model panics or diverges on " ++ what))

def doSet (st : St) (o : Out) (ktok htok vtok outv : String) : Option (St × Out) := do
  let (_, kr?, k?, st, o) ← opKey st o ktok htok
  let v := toVal (← parseVal vtok)
  match kr?, k? with
  | none, _ | _, none =>
    -- nil / NaN key: must be rejected, table unchanged
    pure (st, if outv == "err" then o else o.fail "A-bad-key-accepted" ktok)
  | some kr, some k =>
    let o := if outv == "ok" then o else o.fail "A-set-error" (ktok ++ " " ++ outv)
    let was := (st.spec k).isSome
    let o := if st.sess.isSome then o.tag "trav-update" else o
    let st := sessAssign st k v was
    let st := { st with spec := st.spec.update k v, lastAssignExisting := was && v.isSome }
    let hash := modelHash st
    let o := match st.model with
      | some m => match v with
        | some _ => if hFull m.hash && (match toInt k with | some i => !(match m.arr with | some a => a.has i | none => false) | none => true)
                    then o.tag ("grow:" ++ reprStr (growCase m))
                    else o
        | none => o
      | none => o
    let o := match st.model, v with
      | some m, some _ =>
        -- which branch of insertNewKeyValue is about to run (when the key is new to the hash part)
        match m.hash with
        | some h =>
          if (hashLookupSlot h.slots k).isNone && !hFull m.hash then
            match insCase hash h.slots h.mask k with
            | some c => o.tag ("ins:" ++ reprStr c)
            | none => o
          else o
        | none => o
      | _, _ => o
    -- `t[k] = v` from Lua is SetIndex: Table.Reset first, Table.Set only when that fails
    let step (m : Mixed) : Option Mixed :=
      if st.leg == "lua" then do
        let (m', wasSet) ← treset hash m kr v
        if wasSet then pure m' else tset hash m kr v
      else tset hash m kr v
    pure (stepB st o step ("set " ++ ktok))
where
  hashLookupSlot (slots : List Slot) (k : Key) : Option Slot := slots.find? (·.key = some k)

def doReset (st : St) (o : Out) (ktok htok vtok outv : String) : Option (St × Out) := do
  let (_, kr?, k?, st, o) ← opKey st o ktok htok
  let v := toVal (← parseVal vtok)
  match kr?, k? with
  | none, _ | _, none => pure (st, if outv == "F" then o else o.fail "A-reset-bad-key" ktok)
  | some kr, some k =>
    let was := (st.spec k).isSome
    let o := if outv == "t" || outv == "F" then o else o.fail "A-reset-error" (ktok ++ " " ++ outv)
    let o := if (outv == "t") == was then o
      else o.fail "A-reset"
        (ktok ++ " returned " ++ outv ++ " but the key is " ++ (if was then "present" else "absent"))
    let o := if st.sess.isSome then o.tag "trav-update" else o
    -- the spec follows what the implementation reports (a mismatch has been reported above)
    let did := outv == "t"
    let st := if did then sessAssign st k v was else st
    let st := if did then { st with spec := st.spec.update k v } else st
    let st := { st with lastAssignExisting := false }
    let hash := modelHash st
    match st.model with
    | none => pure (st, o)
    | some m =>
      match treset hash m kr v with
      | none => pure ({ st with model := none }, o.fail "B-model-panic" ("reset " ++ ktok))
      | some (m', w) =>
        let o := if w == (outv == "t") then o else o.fail "B-reset" (ktok ++ " model says " ++ toString w)
        pure ({ st with model := some m' }, o)

def doGet (st : St) (o : Out) (ktok htok outv : String) : Option (St × Out) := do
  let (_, kr?, k?, st, o) ← opKey st o ktok htok
  let expected : Option Val := match k? with
    | none => none
    | some k => st.spec k
  let o := if outv == showVal expected then o
    else o.fail "A-get" (ktok ++ " returned " ++ outv ++ ", most recent assignment " ++ showVal expected)
  match kr?, st.model with
  | some k, some m =>
    match get (modelHash st) m k with
    | none => pure ({ st with model := none }, o.fail "B-model-panic" ("get " ++ ktok))
    | some v => pure (st, if showVal v == outv then o else o.fail "B-get" (ktok ++ " model " ++ showVal v))
  | _, _ => pure (st, o)

def doLen (st : St) (o : Out) (outv : String) : Option (St × Out) := do
  let n ← outv.toNat?
  let o := if decide (Map.isBorder st.spec n) then o else o.fail "A-border" (outv ++ " is not a border")
  match st.model with
  | some m =>
    match len (modelHash st) m with
    | none => pure ({ st with model := none }, o.fail "B-model-panic" "len")
    | some l => pure (st, if l == n then o else o.fail "B-len" ("model " ++ toString l))
  | none => pure (st, o)

def doNext (st : St) (o : Out) (ktok htok : String) (res : List String) : Option (St × Out) := do
  let (rk, kr?, k?, st, o) ← opKey st o ktok htok
  -- level B first: the model's answer
  let (st, o) := match st.model with
    | some m =>
      let arg : Option (Option Key) := match rk, kr? with
        | .nil, _ => some none
        | _, some k => some (some k)
        | _, none => none   -- NaN: not modelled
      match arg with
      | none => (st, o)
      | some a =>
        match next (modelHash st) m a with
        | none => ({ st with model := none }, o.fail "B-model-panic" ("next " ++ ktok))
        | some r =>
          let got := " ".intercalate res
          -- normalise the implementation's key token through the same parser
          let implShown := match res with
            | [k', v'] => match parseKey k' with
              | some (rk', _) => match rk'.norm with
                | some kk => showKey kk ++ " " ++ v'
                | none => got
              | none => got
            | _ => got
          (st, if showNext r == implShown then o else o.fail "B-next" (ktok ++ " model " ++ showNext r))
    | none => (st, o)
  -- level A: the traversal relation
  let start := rk == .nil
  let st := if start then
      { st with sess := some { stable := present st } }
    else st
  let continuing : Bool := match st.sess, k? with
    | some s, some k => start || s.last == some k
    | some _, none => start
    | none, _ => false
  match res with
  | ["inv"] =>
    if continuing then
      let valid := (st.sess.map (·.valid)).getD false
      let o := if !valid then o
        else o.fail "A-next-invalid" ("next(" ++ ktok ++ ") is invalid although the key was returned by this traversal")
      pure ({ st with sess := none }, o)
    else
      -- a key outside a traversal: invalid is wrong only when the key is present
      let o := match k? with
        | some k => if (st.spec k).isSome then o.fail "A-next-invalid-present" ktok else o
        | none => o
      pure (st, o)
  | ["end"] =>
    if continuing then
      match st.sess with
      | some s =>
        let missed := if s.valid then s.stable.filter (fun k => !s.visited.contains k) else []
        let o := match missed with
          | [] => o
          | k :: _ => o.fail "A-next-missed" ("traversal ended without visiting " ++ showKey k ++ " which stayed present")
        pure ({ st with sess := none }, o.tag "trav-end")
      | none => pure (st, o)
    else pure (st, o)
  | ["err"] => pure ({ st with sess := none }, match k? with
      | none => if start then o.fail "A-next-error" ktok else o   -- next(t, NaN) may raise
      | some _ => o.fail "A-next-error" ktok)
  | [k', v'] =>
    let (rk', _) ← parseKey k'
    let v := toVal (← parseVal v')
    match rk'.norm with
    | none => pure (st, o.fail "A-next-bad-key" k')
    | some kk =>
      let o := if st.spec kk == v && v.isSome then o
        else o.fail "A-next-stale" ("next returned " ++ k' ++ " " ++ v' ++ " but the table holds " ++ showVal (st.spec kk))
      -- a returned key must be in normal form
      let o := if showKey kk == k' || k'.front == 'r' then o else o.fail "A-next-unnormalised" k'
      if continuing then
        match st.sess with
        | some s =>
          let o := if s.valid && s.visited.contains kk then
              o.fail "A-next-revisit" ("next(" ++ ktok ++ ") returned " ++ k' ++ " a second time")
            else o
          -- after a repeated key the traversal is over as far as the relation goes
          if s.valid && s.visited.contains kk then pure ({ st with sess := none }, o)
          else pure ({ st with sess := some { s with visited := kk :: s.visited, last := some kk } }, o)
        | none => pure (st, o)
      else pure (st, o)
  | _ => none

def doNewindex (st : St) (o : Out) (ktok htok vtok outv : String) : Option (St × Out) := do
  let (_, kr?, k?, st, o) ← opKey st o ktok htok
  let v := toVal (← parseVal vtok)
  match kr?, k? with
  | none, _ | _, none => pure (st, if outv == "err" then o else o.fail "A-newindex-bad-key" (ktok ++ " " ++ outv))
  | some kr, some k =>
    let absent := (st.spec k).isNone
    -- a metatable without __newindex: nothing to call, the assignment is raw
    let plain := st.leg == "metaplain"
    let o := if outv == (if absent && !plain then "t" else "F") then o
      else o.fail "A-newindex"
        (ktok ++ ": __newindex called = " ++ outv ++ " but the raw key is " ++ (if absent then "absent" else "present") ++
          (if plain then " and the metatable has no __newindex" else ""))
    -- the logging handler assigns nothing; the spec follows what the implementation reports
    let st := if outv == "F" then { st with spec := st.spec.update k v } else st
    match st.model with
    | none => pure (st, o)
    | some m =>
      match Model.Index.setIndexStep (modelHash st) m kr v with
      | none => pure ({ st with model := none }, o.fail "B-model-panic" ("setindex " ++ ktok))
      | some (.done m') =>
        pure ({ st with model := some m' }, if outv == "F" then o else o.fail "B-newindex" (ktok ++ " model: raw assignment"))
      | some .consult =>
        if plain then
          -- no handler: `t.SetTable(tbl, idx, val)`
          match tset (modelHash st) m kr v with
          | none => pure ({ st with model := none }, o.fail "B-model-panic" ("setindex " ++ ktok))
          | some m' => pure ({ st with model := some m' }, if outv == "F" then o else o.fail "B-newindex" ktok)
        else pure (st, if outv == "t" then o else o.fail "B-newindex" (ktok ++ " model: consult __newindex"))

def doIndex (st : St) (o : Out) (ktok htok called vtok : String) : Option (St × Out) := do
  let (_, kr?, k?, st, o) ← opKey st o ktok htok
  let expected : Option Val := match k? with
    | none => none
    | some k => st.spec k
  let plain := st.leg == "metaplain"
  let o := if called == (if expected.isNone && !plain then "t" else "F") then o
    else o.fail "A-index" (ktok ++ ": __index called = " ++ called ++ " but the raw value is " ++ showVal expected)
  -- a present field reads its own value (`false` included); without __index an absent one reads nil
  let o := if (expected.isSome || plain) && vtok != showVal expected then
      o.fail "A-index-value" (ktok ++ " read " ++ vtok ++ ", the field holds " ++ showVal expected) else o
  match kr?, st.model with
  | some k, some m =>
    match Model.Index.indexStep (modelHash st) m k with
    | none => pure ({ st with model := none }, o.fail "B-model-panic" ("index " ++ ktok))
    | some (.done v) => pure (st, if called == "F" && vtok == showVal (some v) then o else o.fail "B-index" ktok)
    | some .consult => pure (st, if called == (if plain then "F" else "t") then o else o.fail "B-index" ktok)
  | _, _ => pure (st, o)


/-! ### table.insert / table.remove / table.unpack on sequences (Lua legs)

  Spec (manual §6.6): with `n = #t`, `insert(t, v)` is `t[n+1] = v`; `insert(t, pos, v)` needs
  `1 ≤ pos ≤ n+1` and shifts up; `remove(t)` returns and clears `t[n]`; `remove(t, pos)` needs
  `1 ≤ pos ≤ n+1` (or `n = 0 ∧ pos ∈ {0, n}`), returns `t[pos]` and shifts down; `unpack(t)` is
  `t[1], …, t[n]`.  Checked only when the border is unique (the positive integer keys are exactly
  `1..n`); an element equal to `false` is an element like any other. -/

/-- the length of the sequence, if the positive integer keys present are exactly `1..n` -/
def seqLen (st : St) : Option Nat :=
  let rec count (fuel n : Nat) : Nat :=
    match fuel with
    | 0 => n
    | fuel + 1 => if (st.spec (.int ((n : Int) + 1))).isSome then count fuel (n + 1) else n
  let n := count (st.keys.length + 1) 0
  if (present st).all (fun k => match k with | .int z => decide (z ≤ (n : Int)) || decide (z ≤ 0) | _ => true) then some n else none

def seqGet (st : St) (i : Nat) : Option Val := st.spec (.int (i : Int))

/-- `t[lo..hi]` shifted by one position up (insert) -/
def shiftUp (m : Map) (lo hi : Nat) : Map :=
  (List.range (hi + 1 - lo)).foldl (fun acc j =>
    let i := hi - j
    acc.update (.int ((i : Int) + 1)) (m (.int (i : Int)))) m

/-- `t[lo+1..hi]` shifted by one position down (remove at lo), clearing `t[hi]` -/
def shiftDown (m : Map) (lo hi : Nat) : Map :=
  ((List.range (hi - lo)).foldl (fun acc j =>
    let i := lo + j
    acc.update (.int (i : Int)) (m (.int ((i : Int) + 1)))) m).update (.int (hi : Int)) none

def addIntKeys (st : St) (hi : Nat) : St :=
  (List.range (hi + 2)).foldl (fun st (i : Nat) => addKey st (.int (i : Int))) st

def doLib (st : St) (o : Out) (op : String) (args : List String) (res : List String) : Option (St × Out) := do
  -- the model does not follow library calls: it is re-read from the next dump
  let st := { st with model := none, sess := none }
  if st.noA then pure (st, o) else
  match seqLen st with
  | none => pure ({ st with noA := true }, o.tag "not-a-sequence")
  | some n =>
    let st := addIntKeys st n
    let o := o.tag "seq-lib"
    match op, args, res with
    | "TI", [vtok], [out] => do
      let v ← parseVal vtok
      let o := if out == "ok" then o else o.fail "A-table-insert" ("insert(t, " ++ vtok ++ ") " ++ out)
      pure ({ st with spec := st.spec.update (.int ((n : Int) + 1)) v }, o)
    | "TP", [ptok, vtok], [out] => do
      let v ← parseVal vtok
      let pos ← ptok.toInt?
      if 1 ≤ pos ∧ pos ≤ (n : Int) + 1 then
        let o := if out == "ok" then o else o.fail "A-table-insert" ("insert(t, " ++ ptok ++ ", " ++ vtok ++ ") " ++ out)
        let p := pos.toNat
        pure ({ st with spec := (shiftUp st.spec p n).update (.int pos) v }, o)
      else
        pure (st, if out == "err" then o else o.fail "A-table-insert" ("position " ++ ptok ++ " out of bounds accepted"))
    | "TR", [], [out] =>
      let expected := if n == 0 then none else seqGet st n
      let o := if out == showVal expected then o
        else o.fail "A-table-remove" ("remove(t) returned " ++ out ++ ", t[#t] is " ++ showVal expected)
      pure ({ st with spec := if n == 0 then st.spec else st.spec.update (.int (n : Int)) none }, o)
    | "TQ", [ptok], [out] => do
      let pos ← ptok.toInt?
      if (1 ≤ pos ∧ pos ≤ (n : Int) + 1) ∨ (n = 0 ∧ pos = 0) then
        let expected := st.spec (.int pos)
        let o := if out == showVal expected then o
          else o.fail "A-table-remove" ("remove(t, " ++ ptok ++ ") returned " ++ out ++ ", t[pos] is " ++ showVal expected)
        let spec := if pos ≥ 1 ∧ pos ≤ (n : Int) then shiftDown st.spec pos.toNat n else st.spec
        pure ({ st with spec := spec }, o)
      else
        pure (st, if out == "err" then o else o.fail "A-table-remove" ("position " ++ ptok ++ " out of bounds accepted"))
    | "TU", [], vals =>
      let expected := (List.range n).map fun i => showVal (seqGet st (i + 1))
      pure (st, if vals == expected then o
        else o.fail "A-table-unpack" ("unpack(t) returned " ++ " ".intercalate vals ++ ", the sequence is " ++ " ".intercalate expected))
    | _, _, _ => none

/-- parse `n` tokens of a dump -/
def parseSlots (st : St) (o : Out) : Nat → List String → List Slot → Option (List Slot × List String × St × Out)
  | 0, rest, acc => some (acc.reverse, rest, st, o)
  | n + 1, k :: v :: nx :: fl :: h :: rest, acc => do
    let val := toVal (← parseVal v)
    let nxt ← nx.toNat?
    let flags ← fl.toNat?
    let hv ← h.toNat?
    if k == "n" then
      parseSlots st o n rest (⟨none, val, nxt, flags % 2 == 1, flags / 2 % 2 == 1⟩ :: acc)
    else
      let (rk, twin) ← parseKey k
      match rk with
      | .nil => none
      | _ =>
        -- keys stored in the table must already be in normal form
        let (key, o) : Key × Out := match rk.norm, rk with
          | some kk, .num (.flt f) => if kk == .flt f then (kk, o) else (.flt f, o.fail "inv-key-not-normalised" k)
          | some kk, _ => (kk, o)
          | none, .num (.flt f) => (.flt f, o.fail "inv-nan-key" k)
          | none, _ => (.bool false, o)
        let (st, good) := addHash st key hv
        let (st, o) := if good then (st, o) else
          ({ st with noB := true, model := none }, o.fail "hash-not-function-of-key" k)
        parseSlots st o n rest (⟨some key, val, nxt, flags % 2 == 1, flags / 2 % 2 == 1⟩ :: acc)
  | _, _, _ => none

def parseVals : Nat → List String → List (Option Val) → Option (List (Option Val) × List String)
  | 0, rest, acc => some (acc.reverse, rest)
  | n + 1, v :: rest, acc => do
    let val := toVal (← parseVal v)
    parseVals n rest (val :: acc)
  | _, _, _ => none

def doDump (st : St) (o : Out) (toks : List String) : Option (St × Out) := do
  match toks with
  | "A" :: asz :: alen :: rest =>
    let asz ← asz.toInt?
    let alen ← alen.toNat?
    let (arr, rest) ← if asz < 0 then pure (none, rest) else do
      let (vs, rest) ← parseVals asz.toNat rest []
      pure (some (Arr.mk vs alen), rest)
    match rest with
    | "H" :: b :: nf :: n :: rest =>
      let b ← b.toInt?
      let nf ← nf.toInt?
      let n ← n.toNat?
      let (slots, rest, st, o) ← parseSlots st o n rest []
      if !rest.isEmpty then none else
      let hash : Option HashTable := if b < 0 then none else some ⟨slots, if nf < 0 then none else some nf.toNat, b.toNat⟩
      let dumped : Mixed := ⟨hash, arr⟩
      -- tags for the non-triviality rule
      let o := if (match st.base, hash with | some b0, some h => decide (b0 < h.base) | none, some _ => true | _, _ => false) then o.tag "grow-hash" else o
      let o := if arrSize arr != st.arrSize then o.tag "grow-array" else o
      let o := if arrLen arr > 0 && (match hash with | some h => h.slots.any (·.val.isSome) | none => false) then o.tag "arr+hash" else o
      let o := match hash with
        | some h => if h.slots.length > smallHashTableSize then o.tag "hashed" else o
        | none => o
      -- an assignment to an existing field must never make the table grow
      let grew := arrSize arr != st.arrSize ||
        (match st.base, hash with | some b0, some h => decide (b0 < h.base) | none, some _ => true | _, _ => false)
      let o := if grew && st.lastAssignExisting then o.fail "A-assign-existing-grows" "the table grew (rehash / array migration) on an assignment to an existing field" else o
      let st := { st with arrSize := arrSize arr, arrLen := arrLen arr, base := hash.map (·.base), lastAssignExisting := false }
      if st.noB then pure (st, o) else
      -- the invariant of the theorems, evaluated on the real state
      let o := if decide (Inv (modelHash st) dumped) then o else o.fail "inv" "Model.Table.Inv does not hold of the dumped state"
      -- level B: the model must be in exactly this state
      match st.model with
      | some m =>
        if m == dumped then pure (st, o)
        else pure ({ st with model := some dumped }, o.fail "B-state" ("model state differs from the dump; model: " ++ showMixed m))
      | none => pure ({ st with model := some dumped }, o)
    | _ => none
  | _ => none

def processLine (st : St) (line : String) : St × String :=
  let toks := (line.splitOn " ").filter (· ≠ "")
  let o : Out := {}
  let r : Option (St × Out) :=
    match toks with
    | "C" :: _ :: leg :: _ =>
      some ({ hashes := st.hashes, leg := leg }, o)
    | ["S", k, h, v, "=", out] => doSet st o k h v out
    | ["R", k, h, v, "=", out] => doReset st o k h v out
    | ["G", k, h, "=", out] => doGet st o k h out
    | ["L", "=", out] => if out == "err" then some (st, o.fail "A-len-error" "") else doLen st o out
    | "N" :: k :: h :: "=" :: res => doNext st o k h res
    | ["X", k, h, v, "=", out] => doNewindex st o k h v out
    | ["I", k, h, "=", called, v] =>
      if called == "err" then
        -- t[nil] / t[NaN] on a table with __index: no error expected
        some (st, o.fail "A-index-error" k)
      else doIndex st o k h called v
    | ["TI", v, "=", out] => doLib st o "TI" [v] [out]
    | ["TP", p, v, "=", out] => doLib st o "TP" [p, v] [out]
    | ["TR", "=", out] => doLib st o "TR" [] [out]
    | ["TQ", p, "=", out] => doLib st o "TQ" [p] [out]
    | "TU" :: "=" :: vals => doLib st o "TU" [] vals
    | "D" :: rest => doDump st o rest
    | ["K", "ok"] => some (st, o)
    | "K" :: msg => some (st, o.fail "go-invariant" (" ".intercalate msg))
    | _ => none
  -- once a library call met a table that is not a sequence the spec cannot follow this case any more
  if st.noA && toks.head? != some "C" then (st, "ok unchecked") else
  match r with
  | some (st, o) => (st, o.render)
  | none => (st, "bad-line")

def main (_args : List String) : IO UInt32 := do
  let stdin ← IO.getStdin
  let stdout ← IO.getStdout
  let stRef ← IO.mkRef ({} : St)
  forEachLine stdin fun line => do
    let st ← stRef.get
    let (st', out) := processLine st line
    stRef.set st'
    stdout.putStrLn out
  stdout.flush
  return 0

end Oracle.C03
