import Oracle.Proto
namespace Oracle.C03

/-- placeholder: the oracle driver for C03 is not built yet -/
def main (_args : List String) : IO UInt32 := do
  IO.eprintln "oracle mode c03: not built"
  return 2

end Oracle.C03
