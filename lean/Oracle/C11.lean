import Oracle.Proto
namespace Oracle.C11

/-- placeholder: the oracle driver for C11 is not built yet -/
def main (_args : List String) : IO UInt32 := do
  IO.eprintln "oracle mode c11: not built"
  return 2

end Oracle.C11
