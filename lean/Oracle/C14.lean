import Oracle.Proto
namespace Oracle.C14

/-- placeholder: the oracle driver for C14 is not built yet -/
def main (_args : List String) : IO UInt32 := do
  IO.eprintln "oracle mode c14: not built"
  return 2

end Oracle.C14
