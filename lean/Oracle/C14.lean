/-
  Oracle.C14 — runs Model.Pools on the client programs the c14 harness executed against
  the real valuePool (lines `op args = impl-result`) and prints what the model returns.
-/
import Oracle.Proto
import GoluaVerif.Model.Pools
namespace Oracle.C14
open GoluaVerif.Model.Pools Oracle

def allZero (l : List Nat) : Bool := l.all (· == 0)

def stepLine (s : Sys) (line : String) : Sys × String :=
  match (line.splitOn " = ").head!.splitOn " " with
  | ["new", size, maxAge] => (Sys.init size.toNat! maxAge.toNat!, "-")
  | ["get", sz] =>
    let (s', _) := s.step (.get sz.toNat!)
    match s'.held.getLast? with
    | some (_, c) => (s', s!"{c.id} {c.vals.length} {if allZero c.vals then 1 else 0}")
    | none => (s', "model-error")
  | ["write", h, idx, v] => ((s.step (.write h.toNat! idx.toNat! v.toNat!)).1, "-")
  | ["read", h, idx] =>
    match (s.step (.read h.toNat! idx.toNat!)).2 with
    | some v => (s, toString v)
    | none => (s, "model-error")
  | ["release", h] => ((s.step (.release h.toNat!)).1, "-")
  | _ => (s, "bad-line")

def cstepLine (s : CSys) (line : String) : CSys × String :=
  match (line.splitOn " = ").head!.splitOn " " with
  | ["cnew", cap] => (CSys.init cap.toNat!, "-")
  | ["cget"] =>
    let s' := s.step .get
    -- every continuation the pool holds was zeroed by release; a fresh one is zero
    (s', s!"{s'.live.head!} 1")
  | ["crelease", c] => (s.step (.release c.toNat!), "-")
  | _ => (s, "bad-line")

def main (_args : List String) : IO UInt32 := do
  let stdin ← IO.getStdin
  let stdout ← IO.getStdout
  let st ← IO.mkRef (Sys.init 10 10)
  let cst ← IO.mkRef (CSys.init 100)
  forEachLine stdin fun line => do
    if line.startsWith "c" then
      let (s', out) := cstepLine (← cst.get) line
      cst.set s'
      stdout.putStrLn out
    else
      let (s', out) := stepLine (← st.get) line
      st.set s'
      stdout.putStrLn out
  return 0

end Oracle.C14
