/-
  Oracle.C08 — what the Lean model (Model.Flags, the definitions Props/C08.lean is about) predicts
  for a call of a registered Go function in a chain of nested contexts, using the flags table
  REGENERATED from /repo (Generated.Compliance).

  stdin lines:   q <goSymbol[*]> <luaNameHex> <F1,F2,...> [hint]   (flags required by each nested callcontext, outermost
                 first, each optionally followed by c/m/t for the hard limits it sets; hint = flags of the object in hand, used only to choose between several table entries)
  stdout lines:  pass <declared> | refuse <missingMask> <declared> | unknown | ambiguous | bad-line
-/
import Oracle.Proto
import GoluaVerif.Model.Flags
import GoluaVerif.Generated.Compliance
namespace Oracle.C08
open GoluaVerif.Model.Flags GoluaVerif.Generated

def hexToString (h : String) : Option String :=
  (Oracle.parseHexBytes h).bind fun b => String.fromUTF8? b

/-- a trailing `*` in the symbol asks for a prefix match (closures of a factory that the Go compiler
    inlined into `init` carry a counter of `init`, not of the factory) -/
def symMatches (pat sym : String) : Bool :=
  if pat.endsWith "*" then (pat.dropEnd 1).toString.isPrefixOf sym else pat == sym

/-- one nested context: `<flags>` followed by letters for the hard limits it sets (c = cpu, m = memory, t = time) -/
def parseDef (tok : String) : Option CtxDef :=
  let digits := tok.takeWhile Char.isDigit |>.toString
  let letters := tok.dropWhile Char.isDigit |>.toString
  digits.toNat?.map fun f =>
    { flags := f, cpuLimit := letters.contains 'c', memLimit := letters.contains 'm', timeLimit := letters.contains 't' }

def lookup (sym name : String) : List Nat :=
  (Compliance.regs.filter fun r => symMatches sym r.sym && r.luaName == name).map (·.flags) |>.eraseDups

def answer (line : String) : String :=
  match line.splitOn " " with
  | "q" :: sym :: nameHex :: fs :: rest =>
    match hexToString nameHex with
    | none => "bad-line"
    | some name =>
      let chain := (fs.splitOn ",").filterMap parseDef
      let predict (declared : Nat) : String :=
        let ctx := pushAll root chain
        if refused ctx.required declared then
          s!"refuse {missing ctx.required declared} {declared}"
        else s!"pass {declared}"
      match lookup sym name with
      | [] => "unknown"
      | [declared] => predict declared
      | cands =>
        -- the same Go function registered twice under the same name with different declarations
        -- (debug.traceback / debuglib.Traceback): the caller says which object it holds
        match rest.head?.bind String.toNat? with
        | some hint => if cands.contains hint then predict hint else "ambiguous"
        | none => "ambiguous"
  | _ => "bad-line"

def main (_args : List String) : IO UInt32 := do
  let stdin ← IO.getStdin
  let stdout ← IO.getStdout
  Oracle.forEachLine stdin fun line => stdout.putStrLn (answer line)
  stdout.flush
  return 0

end Oracle.C08
