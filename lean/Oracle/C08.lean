import Oracle.Proto
namespace Oracle.C08

/-- placeholder: the oracle driver for C08 is not built yet -/
def main (_args : List String) : IO UInt32 := do
  IO.eprintln "oracle mode c08: not built"
  return 2

end Oracle.C08
