/-
  Oracle.C20 — classifies every entry of the REGENERATED table Generated.Globals.sharedWriters with
  Spec.Isolation (the lists the theorem `shared_writers_accounted_partial` is about).
  No input; one line per entry:   allowed|recordedDefect|unlisted <variable> <writer>
-/
import Oracle.Proto
import GoluaVerif.Spec.Isolation
import GoluaVerif.Generated.Globals
namespace Oracle.C20
open GoluaVerif.Spec.Isolation GoluaVerif.Generated

def main (_args : List String) : IO UInt32 := do
  let stdout ← IO.getStdout
  for w in Globals.sharedWriters do
    let v := match classify w with
      | .allowed => "allowed"
      | .recordedDefect => "recordedDefect"
      | .unlisted => "unlisted"
    stdout.putStrLn s!"{v} {w.1} {w.2}"
  stdout.flush
  return 0

end Oracle.C20
