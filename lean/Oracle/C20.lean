import Oracle.Proto
namespace Oracle.C20

/-- placeholder: the oracle driver for C20 is not built yet -/
def main (_args : List String) : IO UInt32 := do
  IO.eprintln "oracle mode c20: not built"
  return 2

end Oracle.C20
