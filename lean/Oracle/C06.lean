/-
  Oracle.C06 — C06 shares the context-stack model with C07: `oracle c05` runs the same driver
  (Model.Ctx / Model.CallCtx on the harness's op lines and call trees).
-/
import Oracle.C07
namespace Oracle.C06

def main (args : List String) : IO UInt32 := Oracle.C07.main args

end Oracle.C06
