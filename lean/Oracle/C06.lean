import Oracle.Proto
namespace Oracle.C06

/-- placeholder: the oracle driver for C06 is not built yet -/
def main (_args : List String) : IO UInt32 := do
  IO.eprintln "oracle mode c06: not built"
  return 2

end Oracle.C06
