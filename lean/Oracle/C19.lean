/-
  Oracle.C19 — expected results for the C19 harness lines, computed by the
  definitions of Spec.StrLib / Spec.TabLib (the ones Props/C19 is about) and,
  for the position arithmetic of sub/byte/find, by Model.StrLib over the
  REGENERATED StringNormPos/maxpos/minpos.

  Input lines (everything after ` = ` is what golua did and is ignored except by `sort`):
    S  <fn> <arg>...                      = <outcome>
    SL rep <arg>...                       = <outcome>        (run under a memory limit)
    T  <fn> <tab> [<tab2>] n=<#t> [m=<#u>] <arg>...  = <outcome> ; <own>;<back> [; <own2>;<back2>]
  Output, one line per input line:
    = <expected outcome>[ | <alternative>]...     to be compared with the observed text after ` = `
    ! ok | ! bad <reason>                          verdict of a relation check (sort)
    ?                                              not decided by the manual / not modelled
    bad-line
  Level B, for sub / byte / plain find: `<tab>~ = <what Model.StrLib (mirror of stringlib.go / matching.go over the
  regenerated StringNormPos/maxpos/minpos) computes>` is appended; checks/c19.py compares golua with it too.
-/
import Oracle.Proto
import GoluaVerif.Spec.Num
import GoluaVerif.Spec.StrLib
import GoluaVerif.Spec.TabLib
import GoluaVerif.Model.StrLib
namespace Oracle.C19
open GoluaVerif GoluaVerif.Spec Oracle
open GoluaVerif.Spec.TabLib (Val Err Map MTab Handler mstore)

abbrev Bytes := List UInt8

/-! ### values -/

def otherNames : List String := ["table", "function", "userdata", "thread"]

/-- values the table library only stores and moves keep their identity: floats by their bits, other types
    by the index of the type name -/
def toVal : V → Val
  | .nil => .nil
  | .bool b => .bool b
  | .int n => .int n.toInt
  | .flt b => .flt (BitVec.ofNat 64 b.toNat)
  | .str s => .str s.data.toList
  | .other t => .other (otherNames.idxOf t)

def hexBytes (b : Bytes) : String := b.foldl (fun s x => s ++ hexOfNat x.toNat 2) ""

def showVal : Val → String
  | .nil => "n"
  | .bool true => "t"
  | .bool false => "F"
  | .int i => "i" ++ toString i
  | .str s => "s" ++ hexBytes s
  | .flt b => "f" ++ hexOfNat b.toNat 16
  | .other t => "o" ++ (otherNames[t]?).getD "?"

/-- an argument token: a value, or a reference to table 1 / table 2 -/
inductive Arg where
  | v (x : V)
  | t1
  | t2

def Arg.parse (s : String) : Option Arg :=
  if s == "T" then some .t1 else if s == "U" then some .t2 else (V.parse s).map .v

inductive Conv (α : Type) where
  | ok (a : α)
  | err          -- the manual prescribes an error (wrong type / no integer representation)
  | open_        -- left open here (explicit nil for an optional argument, number where a string is expected, exotic numeral)

def decimal? (s : Bytes) : Option Int :=
  let str := String.ofList (s.map fun b => Char.ofNat b.toNat)
  let digits := if str.startsWith "-" then (str.drop 1).toString else str
  if digits.length > 0 && digits.length ≤ 18 && digits.all Char.isDigit then str.toInt? else none

/-- `luaL_checkinteger` -/
def argInt : Option Arg → Conv Int
  | none => .err
  | some (.v (.int n)) => .ok n.toInt
  | some (.v (.flt b)) => match Num.floatToInt? (F64.ofBits b) with
    | some n => .ok n.toInt
    | none => .err
  | some (.v (.str s)) => match decimal? s.data.toList with
    | some n => .ok n
    | none => if s.data.toList.any (fun b => (48 ≤ b && b ≤ 57)) then .open_ else .err
  | some _ => .err

/-- `luaL_optinteger`; explicit nil is accepted by C Lua, golua rejects it: left open -/
def argOptInt (a : Option Arg) (d : Int) : Conv Int :=
  match a with
  | none => .ok d
  | some (.v .nil) => .open_
  | a => argInt a

/-- `luaL_checklstring`; numbers are converted by C Lua (format of floats unspecified): left open -/
def argStr : Option Arg → Conv Bytes
  | none => .err
  | some (.v (.str s)) => .ok s.data.toList
  | some (.v (.int _)) => .open_
  | some (.v (.flt _)) => .open_
  | some _ => .err

def argOptStr (a : Option Arg) (d : Bytes) : Conv Bytes :=
  match a with
  | none => .ok d
  | some (.v .nil) => .open_
  | a => argStr a

def okVals (vs : List String) : String := "= " ++ " ".intercalate ("ok" :: vs)
def okStr (b : Bytes) : String := okVals ["s" ++ hexBytes b]

/-! ### string functions -/

def toI64 (i : Int) : I64 := BitVec.ofInt 64 i

def truthy : Option Arg → Bool
  | none => false
  | some (.v .nil) => false
  | some (.v (.bool false)) => false
  | some _ => true

def hasSpecial (p : Bytes) : Bool :=
  p.any fun b => "^$*+?.([%-".toList.any fun c => c.toNat == b.toNat

def strFn (limited : Bool) (fn : String) (a : Array Arg) : String :=
  let arg (i : Nat) : Option Arg := a[i]?
  match fn with
  | "len" => match argStr (arg 0) with
    | .ok s => okVals ["i" ++ toString (StrLib.len s)]
    | .err => "= err" | .open_ => "?"
  | "reverse" => match argStr (arg 0) with
    | .ok s => okStr (StrLib.reverse s)
    | .err => "= err" | .open_ => "?"
  | "upper" => match argStr (arg 0) with
    | .ok s => okStr (StrLib.upper s)
    | .err => "= err" | .open_ => "?"
  | "lower" => match argStr (arg 0) with
    | .ok s => okStr (StrLib.lower s)
    | .err => "= err" | .open_ => "?"
  | "sub" => match argStr (arg 0), argInt (arg 1), argOptInt (arg 2) (-1) with
    | .ok s, .ok i, .ok j =>
      let spec := StrLib.sub s i j
      -- level B: the mirror of stringlib.go over the regenerated leaf functions must agree (Props.C19.gosub_eq_spec)
      let model := Model.StrLib.goSub s (toI64 i) (toI64 j)
      okStr spec ++ "\t~ " ++ okStr model
    | .err, _, _ | _, .err, _ | _, _, .err => "= err"
    | _, _, _ => "?"
  | "byte" => match argStr (arg 0), argOptInt (arg 1) 1 with
    | .ok s, .ok i =>
      let j : Conv (Option Int) := match arg 2 with
        | none => .ok none
        | some (.v .nil) => .open_
        | x => match argInt x with | .ok j => .ok (some j) | .err => .err | .open_ => .open_
      match j with
      | .ok j =>
        let spec := StrLib.byte s i j
        let model := Model.StrLib.goByte s (toI64 i) (j.map toI64)
        let out := okVals (spec.map fun c => "i" ++ toString c)
        out ++ "\t~ " ++ okVals (model.map fun c => "i" ++ toString c)
      | .err => "= err"
      | .open_ => "?"
    | .err, _ | _, .err => "= err"
    | _, _ => "?"
  | "char" =>
    let cs := a.toList.map fun x => argInt (some x)
    if cs.any (fun c => match c with | .err => true | _ => false) then "= err"
    else if cs.any (fun c => match c with | .open_ => true | _ => false) then "?"
    else match StrLib.char (cs.filterMap fun c => match c with | .ok n => some n | _ => none) with
      | some b => okStr b
      | none => "= err"
  | "rep" => match argStr (arg 0), argInt (arg 1), argOptStr (arg 2) [] with
    | .ok s, .ok n, .ok sep =>
      if n ≤ 0 then okStr []
      else if s.length + sep.length == 0 then okStr []     -- Props.C19.len_rep: the result has length 0
      else
        let total := (s.length + sep.length) * n.toNat
        if total ≤ 2 ^ 21 then okStr (StrLib.rep s n sep)
        else if StrLib.repTooLarge s.length sep.length n then "= err | killed"
        else if limited && total - sep.length > 2 ^ 26 then "= err | killed"   -- cannot fit in the memory limit of the context
        else "?"
    | .err, _, _ | _, .err, _ | _, _, .err => "= err"
    | _, _, _ => "?"
  | "find" => match argStr (arg 0), argStr (arg 1), argOptInt (arg 2) 1 with
    | .ok s, .ok p, .ok init =>
      if truthy (arg 3) || !hasSpecial p then
        let render (r : Option (Int × Int)) : String := match r with
          | some (x, y) => okVals ["i" ++ toString x, "i" ++ toString y]
          | none => okVals ["n"]
        let spec := (StrLib.findPlain s p init).map fun (x, y) => ((x : Int), (y : Int))
        -- level B: Model.StrLib.goFindPlain mirrors the branch `plain || len(ptn) == 0` of matching.go
        -- (Props.C19.find_plain_model_eq_spec)
        if truthy (arg 3) || p.isEmpty then
          render spec ++ "\t~ " ++ render (Model.StrLib.goFindPlain s p (toI64 init))
        else render spec
      else "?"
    | .err, _, _ | _, .err, _ | _, _, .err => "= err"
    | _, _, _ => "?"
  | _ => "?"

/-! ### tables -/

def parseMap (s : String) : Option Map :=
  if s == "-" then some [] else
  (s.splitOn ",").mapM fun kv =>
    match kv.splitOn ":" with
    | [k, v] => match k.toInt?, V.parse v with
      | some k, some v => some (k, toVal v)
      | _, _ => none
    | _ => none

def insertSorted (p : Int × Val) : Map → Map
  | [] => [p]
  | q :: r => if p.1 ≤ q.1 then p :: q :: r else q :: insertSorted p r

def sortMap (m : Map) : Map := m.foldl (fun acc p => insertSorted p acc) []

def showMap (m : Map) : String :=
  if m.isEmpty then "-" else ",".intercalate ((sortMap m).map fun (k, v) => toString k ++ ":" ++ showVal v)

def handlerOf : Char → Option Handler
  | 'n' => some .none
  | 'f' => some .back
  | 't' => some .back
  | 'e' => some .err
  | _ => none

inductive LenMode where
  | raw                -- no __len: the border golua reports for the raw table
  | back               -- __len returns #back (an integer)
  | fixed (n : Int)    -- __len returns the integer n
  | conv (n : Int)     -- __len returns n as an integral float (`F<n>`) or as a numeric string (`S<n>`): luaL_len converts it
  | bad                -- __len returns a non-integral float (`X`) or a non-number (`N`): "object length is not an integer"

structure TabIn where
  tab : MTab
  lenMode : LenMode

/-- `<idx><nidx><len>/<own>/<back>`; `-` = no table -/
def parseTab (s : String) : Option (Option TabIn) :=
  if s == "-" then some none else
  match s.splitOn "/" with
  | [kind, own, back] =>
    let cs := kind.toList
    match cs with
    | i :: n :: l =>
      let lm : Option LenMode := match l with
        | ['r'] => some .raw
        | ['b'] => some .back
        | ['X'] => some .bad
        | ['N'] => some .bad
        | 'F' :: d => (String.ofList d).toInt?.map .conv
        | 'S' :: d => (String.ofList d).toInt?.map .conv
        | _ => (String.ofList l).toInt?.map .fixed
      match handlerOf i, handlerOf n, lm, parseMap own, parseMap back with
      | some hi, some hn, some lm, some o, some b => some (some { tab := { own := o, back := b, idx := hi, nidx := hn }, lenMode := lm })
      | _, _, _, _, _ => none
    | _ => none
  | _ => none

/-- is the `#t` golua reported (absent when it is not an integer) acceptable for this table? -/
def lenOK (t : TabIn) (n : Option Int) : Bool :=
  match t.lenMode, n with
  | .raw, some n => t.tab.own.isBorder n
  | .back, some n => t.tab.back.isBorder n
  | .fixed k, some n => n == k
  | .conv _, _ => true
  | .bad, _ => true
  | _, none => false

/-- the length `luaL_len` yields: `none` = it raises -/
def effLen (t : TabIn) (n : Option Int) : Option Int :=
  match t.lenMode with
  | .conv k => some k
  | .bad => none
  | _ => n

def showTab (t : MTab) : String := showMap t.own ++ ";" ++ showMap t.back

def errStr : Err → String
  | _ => "= err"

/-- widest range the oracle evaluates exactly -/
def maxExact : Int := 4096

def i64? (i : Int) : Bool := TabLib.minInt ≤ i && i ≤ TabLib.maxInt

structure TCall where
  fn : String
  t1 : Option TabIn
  t2 : Option TabIn
  n1 : Option Int
  n2 : Option Int
  args : Array Arg

def isTab1 : Option Arg → Bool
  | some .t1 => true
  | _ => false

def tabFn (c : TCall) : String :=
  let arg (i : Nat) : Option Arg := c.args[i]?
  let argc := c.args.size
  -- pack takes any values
  if c.fn == "pack" then
    let vs := c.args.toList.map fun a => match a with | .v x => toVal x | _ => Val.other 2
    let p := TabLib.pack vs
    let items : Map := (List.range vs.length).filterMap fun (i : Nat) =>
      let v := p.get ((i : Int) + 1)
      if v = .nil then none else some (((i : Int) + 1), v)
    "= ok P ; " ++ (if items.isEmpty then "" else showMap items ++ ",") ++ "n:i" ++ toString p.n
  else
  -- every other function needs a table first
  match arg 0, c.t1 with
  | some .t1, some tin =>
    if !lenOK tin c.n1 then "= badlen" else
    let st := tin.tab
    -- which calls ask for the length (luaL_len / aux_getn): insert, remove, concat always; unpack only without an
    -- explicit end; move never.  A __len result that is not convertible to an integer makes exactly those fail.
    let needLen := match c.fn with
      | "insert" | "remove" | "concat" => true
      | "unpack" => (match arg 2 with | none => true | some (.v .nil) => true | _ => false)
      | _ => false
    match effLen tin c.n1, needLen with
    | none, true => "= err"
    | en, _ =>
    let n := en.getD 0
    let hasFloat := (st.own ++ st.back).any fun p => match p.2 with | .flt _ => true | _ => false
    if c.fn == "concat" && hasFloat then "?" else      -- the format of floats is not specified
    match c.fn with
    | "insert" =>
      if argc == 2 then
        match arg 1 with
        | some (.v x) => match TabLib.insert mstore st n none (toVal x) with
          | .ok st' => "= ok ; " ++ showTab st'
          | .error e => errStr e
        | _ => "?"
      else if argc == 3 then
        match argInt (arg 1), arg 2 with
        | .ok pos, some (.v x) =>
          if !(TabLib.toU (pos - 1) < TabLib.toU (TabLib.wrap64 (n + 1))) then "= err" else
          if TabLib.wrap64 (n + 1) - pos > maxExact then "?" else
          match TabLib.insert mstore st n (some pos) (toVal x) with
          | .ok st' => "= ok ; " ++ showTab st'
          | .error e => errStr e
        | .err, _ => "= err"
        | _, _ => "?"
      else "= err"      -- "wrong number of arguments to 'insert'"
    | "remove" =>
      let pos : Conv (Option Int) := match arg 1 with
        | none => .ok none
        | some (.v .nil) => .open_
        | x => match argInt x with | .ok p => .ok (some p) | .err => .err | .open_ => .open_
      match pos with
      | .ok pos =>
        if pos.getD n ≠ n ∧ ¬ (TabLib.toU (pos.getD n - 1) ≤ TabLib.toU n) then "= err" else
        if n - pos.getD n > maxExact then "?" else
        match TabLib.remove mstore st n pos with
        | .ok (r, st') => "= ok " ++ showVal r ++ " ; " ++ showTab st'
        | .error e => errStr e
      | .err => "= err"
      | .open_ => "?"
    | "move" =>
      match argInt (arg 1), argInt (arg 2), argInt (arg 3) with
      | .ok f, .ok e, .ok t =>
        let big := e - f > maxExact
        match arg 4, c.t2 with
        | none, _ | some .t1, _ =>
          (match TabLib.movePlan f e t true with
          | .error er => errStr er
          | .ok _ =>
            if big then "?" else
            match TabLib.move mstore st f e t with
            | .ok st' => "= ok T ; " ++ showTab st'
            | .error er => errStr er)
        | some .t2, some uin =>
          (match TabLib.movePlan f e t false with
          | .error er => errStr er
          | .ok _ =>
            if big then "?" else
            match TabLib.move2 mstore mstore st uin.tab f e t with
            | .ok u' => "= ok U ; " ++ showTab st ++ " ; " ++ showTab u'
            | .error er => errStr er)
        | some (.v .nil), _ => "?"
        | _, _ => "= err"
      | .err, _, _ | _, .err, _ | _, _, .err => "= err"
      | _, _, _ => "?"
    | "concat" =>
      match argOptStr (arg 1) [], argOptInt (arg 2) 1, argOptInt (arg 3) n with
      | .ok sep, .ok i, .ok j =>
        match TabLib.concat mstore st sep i j with
        | .ok b => okStr b
        | .error e => errStr e
      | .err, _, _ | _, .err, _ | _, _, .err => "= err"
      | _, _, _ => "?"
    | "unpack" =>
      let e : Conv Int := match arg 2 with
        | none => .ok n
        | some (.v .nil) => .ok n
        | x => argInt x
      match argOptInt (arg 1) 1, e with
      | .ok i, .ok e =>
        if i > e then okVals []
        else if e - i ≥ TabLib.intMaxC then "= err"
        else if e - i + 1 > maxExact then "?"
        else match TabLib.unpack mstore st i e with
          | .ok vs =>
            let s := okVals (vs.map showVal)
            -- the manual sets no bound on the number of results; between golua's bound and C Lua's both are accepted
            if e - i + 1 > 256 then s ++ " | err" else s
          | .error er => errStr er
      | .err, _ | _, .err => "= err"
      | _, _ => "?"
    | _ => "?"
  | some .t1, none => "bad-line"
  | some (.v (.other _)), _ => "?"      -- some other table / function as first argument: not modelled
  | some (.v (.str _)), _ => if c.fn == "unpack" then "?" else "= err"
  | _, _ => "= err"     -- no table where one is required

/-! ### sort: validate the observed final state against the relation -/

def outside (m : Map) (n : Int) : Map := sortMap (m.filter fun p => p.1 < 1 || p.1 > n)

def isInt : Val → Bool | .int _ => true | _ => false
def isStr : Val → Bool | .str _ => true | _ => false
def isRealNum (v : Val) : Bool := match v.num? with | some x => !x.isNaN | none => false

def sortCheck (tin : TabIn) (nObs : Option Int) (cmp : Option String) (outcome : String) (own' back' : Map) : String :=
  if !lenOK tin nObs then "! bad length-not-a-border" else
  match effLen tin nObs with
  | none => if outcome == "err" then "! ok" else "! bad non-integer-length-accepted"
  | some n =>
  if n > 100000 then "?" else
  let cnt := n.toNat
  let st := tin.tab
  let st' : MTab := { st with own := own', back := back' }
  match TabLib.visible mstore st cnt with
  | none => if cnt ≥ 2 && outcome != "err" then "! bad index-handler-error-swallowed" else "! ok"
  | some before =>
    match TabLib.visible mstore st' cnt with
    | none => "! bad final-state-unreadable"
    | some after =>
      if !TabLib.isPerm after before then "! bad lost-or-invented-elements" else
      if outside st'.own n != outside st.own n || outside st'.back n != outside st.back n then "! bad wrote-outside-1..n" else
      if outcome != "ok" && outcome != "err" then "! bad outcome-" ++ outcome else
      let mustOk (sorted : Bool) : String :=
        if outcome != "ok" then "! bad error-with-consistent-comparison"
        else if sorted then "! ok" else "! bad not-sorted"
      let mustErr : String := if outcome == "err" then "! ok" else "! bad comparison-error-swallowed"
      if st.nidx == .err && cnt ≥ 2 then
        -- a read-only proxy: a sort that needs to move anything must fail; if nothing moved either outcome is fine
        "! ok"
      else if cnt < 2 then mustOk true
      else
      -- the comparison as a function on values: Lua's `<` by default (exact on numbers, bytewise on strings)
      let f? : Option (Val → Val → Option Bool) := match cmp with
        | none => some TabLib.luaLt
        | some name => TabLib.namedCmp name
      match f? with
      | none =>
        if cmp == some "err1" || cmp == some "notfn" then mustErr
        else "! ok"     -- random / late-erroring comparison: permutation only
      | some f =>
        -- (integers are comparable with integers by every comparison of the harness: no need to try all pairs)
        let total := before.all isInt || before.all fun a => before.all fun b => (f a b).isSome
        if !total then
          -- some pair of elements cannot be compared (number with string, booleans, nil, …): every sort has to
          -- compare each element with some other, and the comparable ones among themselves only, so it must raise
          let name := cmp.getD "lt"
          if name == "mod3" || name == "abs" then "! ok" else mustErr
        else
          let lt (a b : Val) : Bool := (f a b).getD false
          let name := cmp.getD "lt"
          -- short lists: brute-force check of the strict-weak-order laws on the elements; long lists: the
          -- comparisons proved to be strict weak orders (Props.C19.named_comparisons_swo, lua_order_swo)
          let swo := if cnt ≤ 40 then
              -- the n² outcomes are tabulated once; the laws are then checked on positions (the same predicate
              -- pulled back along `i ↦ before[i]`), which keeps exact number comparison out of the n³ loop
              let arr := before.toArray
              let m := arr.map fun a => arr.map fun b => lt a b
              TabLib.isSWOOn (fun i j => (m[i]?.bind fun r => r[j]?).getD false) (List.range arr.size)
            else (TabLib.provedSWO name && before.all isInt)
              || (name == "lt" && (before.all isRealNum || before.all isStr))
          if swo then mustOk (TabLib.isSortedAdj lt after)
          else "! ok"     -- inconsistent comparison: any permutation, with or without "invalid order function"

/-! ### driver -/

def splitAt (toks : List String) (sep : String) : List String × List String :=
  (toks.takeWhile (· != sep), (toks.dropWhile (· != sep)).drop 1)

def handle (line : String) : String :=
  let toks := (line.splitOn " ").filter (· != "")
  match toks with
  | "S" :: fn :: rest =>
    let (ins, _) := splitAt rest "="
    match ins.mapM Arg.parse with
    | some as => strFn false fn as.toArray
    | none => "bad-line"
  | "SL" :: fn :: rest =>
    let (ins, _) := splitAt rest "="
    match ins.mapM Arg.parse with
    | some as => strFn true fn as.toArray
    | none => "bad-line"
  | "T" :: fn :: rest =>
    let (ins, obs) := splitAt rest "="
    -- leading table descriptors, then n=, m=, then args
    let tabs := ins.takeWhile fun s => s.contains '/' || s == "-"
    let rest := ins.drop tabs.length
    let nTok := rest.filter (·.startsWith "n=")
    let mTok := rest.filter (·.startsWith "m=")
    let argToks := rest.filter fun s => !(s.startsWith "n=") && !(s.startsWith "m=")
    let n1 := nTok.head?.bind fun s => (s.drop 2).toString.toInt?
    let n2 := mTok.head?.bind fun s => (s.drop 2).toString.toInt?
    match tabs.mapM parseTab, argToks.mapM fun s => (if s.startsWith "cmp:" then some (Arg.v .nil) else Arg.parse s) with
    | some ts, some as =>
      if fn == "sort" then
        let cmp := (argToks.find? (·.startsWith "cmp:")).map fun s => (s.drop 4).toString
        let (outc, dumps) := splitAt obs ";"
        match ts.head?.join, outc.head?, dumps with
        | some tin, some oc, d :: _ =>
          match d.splitOn ";" with
          | [o, b] => match parseMap o, parseMap b with
            | some o, some b => sortCheck tin n1 cmp oc o b
            | _, _ => "bad-line"
          | _ => "bad-line"
        | _, _, _ => "bad-line"
      else
        tabFn { fn := fn, t1 := ts.head?.join, t2 := (ts.drop 1).head?.join, n1 := n1, n2 := n2, args := as.toArray }
    | _, _ => "bad-line"
  | _ => "bad-line"

def main (_args : List String) : IO UInt32 := do
  let stdin ← IO.getStdin
  let stdout ← IO.getStdout
  forEachLine stdin fun line => stdout.putStrLn (handle line)
  return 0

end Oracle.C19
