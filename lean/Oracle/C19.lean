import Oracle.Proto
namespace Oracle.C19

/-- placeholder: the oracle driver for C19 is not built yet -/
def main (_args : List String) : IO UInt32 := do
  IO.eprintln "oracle mode c19: not built"
  return 2

end Oracle.C19
