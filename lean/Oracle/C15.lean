/-
  Oracle.C15 — for every harness line
      <pattern hex|-> <subject hex|-> <init> = <implementation fields…>
  prints
      A <fields> B <fields> X nt=<0|1> bt=<n> flags=<…>
  A = what `Spec.LuaPattern` (the manual) prescribes (`?` where the manual leaves it open),
  B = what the algorithmic mirror (`Model.PatBuild/PatMatch/Gsub`) computes.
  Fields: new mfs m find findp match gmatch gsub gsub2 (see harness/cmd/c15/main.go).
  The functions called here are the ones `Props/C15.lean` is about.
-/
import Oracle.Proto
import GoluaVerif.Spec.LuaPattern
import GoluaVerif.Model.Gsub
namespace Oracle.C15
open GoluaVerif GoluaVerif.Spec GoluaVerif.Model

def machineFuel : Nat := 20000000
def goBudget : Nat := 1099511627776   -- 2^40, as in the harness

def hexOfList (l : List UInt8) : String := l.foldl (fun s x => s ++ Oracle.hexOfNat x.toNat 2) ""

def showVal : LuaPattern.LVal → String
  | .nil => "n"
  | .int n => "i" ++ toString n
  | .str b => "s" ++ hexOfList b

def showVals (vs : List LuaPattern.LVal) : String :=
  if vs.isEmpty then "-" else ",".intercalate (vs.map showVal)

def showResA : LuaPattern.Res → String
  | .error => "E"
  | .unspecified => "?"
  | .vals vs => showVals vs

def showResB : Gsub.LRes → String
  | .error _ => "E"
  | .replError => "E"
  | .panic _ => "P"
  | .vals vs => showVals vs
  | .outOfFuel => "fuel"

def showCapA : LuaPattern.Cap → String
  | .closed a b => s!"{a}:{b}"
  | .position p => s!"{p}:-1"
  | .opened a => s!"{a}:-1"
  | .unset => "0:0"

def showMatchA (pat? : Except LuaPattern.PErr LuaPattern.Pat) (r : LuaPattern.Pat → Option LuaPattern.MatchRes) : String :=
  match pat? with
  | .error .malformed => "-"
  | .error .unspecified => "?"
  | .ok pat =>
    match r pat with
    | none => "nil"
    | some m => ",".intercalate (s!"{m.start}:{m.stop}" :: m.caps.map showCapA)

def showGoB (r : PatMatch.GoResult) : String :=
  if r.outOfFuel then "fuel" else
  let caps := match r.captures with
    | none => "nil"
    | some cs => ",".intercalate (cs.map fun (c : Capture) => s!"{c.start}:{c.stop}")
  s!"{caps}/{r.used}"

def errKind : BErr → String
  | .malformed => "malformed"
  | .unfinishedCapture => "unfinished"
  | .invalidPatternCapture => "invalidcapture"
  | .tooComplex => "toocomplex"
  | .invalidCaptureIdx n => s!"capidx{n}"
  | .invalidPct => "pct"
  | .goPanic _ => "P"
  | .fuel => "fuel"

def hasInvertedRange (pat : LuaPattern.Pat) : Bool :=
  let clsBad : LuaPattern.Cls → Bool
    | .set _ es => es.any fun e => match e with
      | .range lo hi => lo > hi
      | _ => false
    | _ => false
  pat.items.any fun it => match it with
    | .char c _ => clsBad c
    | .frontier c => clsBad c
    | _ => false

/-- flags describing the model's gsub run: `rej` = an empty match was rejected (and still counted),
    `eo` = something was substituted but the output so far is empty -/
def gsubFlags (s : Array UInt8) (P? : Except BErr Pattern) (repl : List UInt8) (n : Option Nat) (tag : String) : List String :=
  match P? with
  | .ok P =>
    match Gsub.gsubRun machineFuel s P repl n with
    | .done st =>
      (if st.matchCount > st.accepted.length then ["rej" ++ tag] else []) ++
      ([] : List String)
    | _ => []
  | _ => []

def handle (line : String) : String :=
  match (line.splitOn " = ").head!.splitOn " " with
  | [ph, sh, initS] =>
    let pb? := if ph == "-" then some ByteArray.empty else Oracle.parseHexBytes ph
    let sb? := if sh == "-" then some ByteArray.empty else Oracle.parseHexBytes sh
    match pb?, sb?, initS.toInt? with
    | some pb, some sb, some init =>
      let p : List UInt8 := pb.toList
      let pa : Array UInt8 := pb.data
      let s : Array UInt8 := sb.data
      let len := s.size
      let gi? : Option Nat := if 1 ≤ init ∧ init ≤ len + 1 then some (init - 1).toNat else none
      -- level A
      let pat? := LuaPattern.parse p
      let aNew := match pat? with
        | .ok _ => "ok"
        | .error .malformed => "err"
        | .error .unspecified => "?"
      let aG := match gi? with
        | some gi =>
          let mfs := showMatchA pat? (fun pat => LuaPattern.findParsed pat s gi)
          -- `Match` (search that ignores `^`) is golua API, not the manual: compared only for unanchored patterns
          let m := match pat? with
            | .ok pat => if pat.anchorStart then "?" else showMatchA pat? (fun pat => LuaPattern.findParsed pat s gi)
            | _ => showMatchA pat? (fun _ => none)
          s!" mfs={mfs} m={m}"
        | none => ""
      let aFind := showResA (LuaPattern.strFind s p init false)
      let aFindp := showResA (LuaPattern.strFind s p init true)
      let aMatch := showResA (LuaPattern.strMatch s p init)
      let aGmatch := showResA (LuaPattern.strGmatch s p init)
      let aGs := if init == 1 then
          " gsub=" ++ showResA (LuaPattern.strGsub s p [60, 37, 48, 62] none) ++                -- "<%0>"
          " gsub2=" ++ showResA (LuaPattern.strGsub s p [91, 37, 49, 93] (some 2))              -- "[%1]", 2
        else ""
      -- level B
      let P? := PatBuild.build pa
      let bNew := match P? with
        | .ok _ => "ok"
        | .error e => errKind e
      let (bG, bt) := match gi?, P? with
        | some gi, .ok P =>
          let r1 := PatMatch.matchFromStart P s machineFuel gi goBudget
          let r2 := PatMatch.matchGo P s machineFuel gi goBudget
          (s!" mfs={showGoB r1} m={showGoB r2}", r1.backtracks + r2.backtracks)
        | some _, .error _ => (" mfs=- m=-", 0)
        | none, _ => ("", 0)
      let bFind := showResB (Gsub.luaFind machineFuel s pa init false)
      let bFindp := showResB (Gsub.luaFind machineFuel s pa init true)
      let bMatch := showResB (Gsub.luaMatch machineFuel s pa init)
      let bGmatch := showResB (Gsub.luaGmatch machineFuel s pa init)
      let bGs := if init == 1 then
          " gsub=" ++ showResB (Gsub.luaGsub machineFuel s pa [60, 37, 48, 62] none) ++
          " gsub2=" ++ showResB (Gsub.luaGsub machineFuel s pa [91, 37, 49, 93] (some 2))
        else ""
      let ir := match pat? with
        | .ok pat => hasInvertedRange pat
        | _ => false
      let quant := match pat? with
        | .ok pat => pat.ncap > 0 || pat.items.any fun it => match it with
          | .char _ q => q != .one
          | _ => false
        | _ => false
      let nt := if quant && bt > 0 then 1 else 0
      let fl := (if ir then ["ir"] else []) ++
        (if init == 1 then gsubFlags s P? [60, 37, 48, 62] none "" ++ gsubFlags s P? [91, 37, 49, 93] (some 2) "2" else [])
      let flags := if fl.isEmpty then "-" else ",".intercalate fl
      s!"A new={aNew}{aG} find={aFind} findp={aFindp} match={aMatch} gmatch={aGmatch}{aGs} " ++
      s!"B new={bNew}{bG} find={bFind} findp={bFindp} match={bMatch} gmatch={bGmatch}{bGs} " ++
      s!"X nt={nt} bt={bt} flags={flags}"
    | _, _, _ => "bad-line"
  | _ => "bad-line"

/-- replacement-string cases:  `R <pattern hex> <subject hex> <repl hex>` → `A gsub=… B gsub=…` -/
def handleRepl (line : String) : String :=
  match (line.splitOn " = ").head!.splitOn " " with
  | [_, ph, sh, rh] =>
    let dec (h : String) := if h == "-" then some ByteArray.empty else Oracle.parseHexBytes h
    match dec ph, dec sh, dec rh with
    | some pb, some sb, some rb =>
      let a := showResA (LuaPattern.strGsub sb.data pb.toList rb.toList none)
      let b := showResB (Gsub.luaGsub machineFuel sb.data pb.data rb.toList none)
      let fl := gsubFlags sb.data (PatBuild.build pb.data) rb.toList none ""
      let flags := if fl.isEmpty then "-" else ",".intercalate fl
      s!"A gsub={a} B gsub={b} X nt=0 bt=0 flags={flags}"
    | _, _, _ => "bad-line"
  | _ => "bad-line"

/-- CPU-accounting cases: `W <k> <n>`: the model's step count and charge for `("a?"):rep(k).."c"` on `("b"):rep(n)` -/
def handleWork (line : String) : String :=
  match (line.splitOn " = ").head!.splitOn " " with
  | [_, ks, ns] =>
    match ks.toNat?, ns.toNat? with
    | some k, some n =>
      let p : Array UInt8 := ((List.replicate k ([97, 63] : List UInt8)).flatten ++ [99]).toArray
      let s : Array UInt8 := (List.replicate n (98 : UInt8)).toArray
      match PatBuild.build p with
      | .ok P =>
        let r := PatMatch.matchFromStart P s machineFuel 0 goBudget
        s!"B steps={r.steps} used={r.used} match={if r.captures.isSome then 1 else 0}"
      | .error _ => "bad-line"
    | _, _ => "bad-line"
  | _ => "bad-line"

def main (_args : List String) : IO UInt32 := do
  let stdin ← IO.getStdin
  let stdout ← IO.getStdout
  Oracle.forEachLine stdin fun line => do
    if line.startsWith "R " then stdout.putStrLn (handleRepl line)
    else if line.startsWith "budget " then stdout.putStrLn (handleWork line)
    else stdout.putStrLn (handle line)
  stdout.flush
  return 0

end Oracle.C15
