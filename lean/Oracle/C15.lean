import Oracle.Proto
namespace Oracle.C15

/-- placeholder: the oracle driver for C15 is not built yet -/
def main (_args : List String) : IO UInt32 := do
  IO.eprintln "oracle mode c15: not built"
  return 2

end Oracle.C15
