/-
  Oracle.C12 — expected results for the C12 harness lines.

    exp <tree> <tokens> = <impl>     tree: prefix code, each node preceded by one `'` per redundant
                                     parenthesis pair; tokens: what the harness rendered.
                                     → `render-mismatch` if Spec.Grammar.render tree ps ≠ tokens,
                                       else the prefix code of Model.ParseExp.parse tokens (or `none`)
    toks <tokens> = <impl>           → prefix code of Model.ParseExp.parse tokens (or `none`)
    short s<hex literal> = <impl>    → s<hex of Model.Literal.decodeShort> or E
    long s<hex literal> = <impl>     → s<hex of Model.Literal.decodeLong> or E
    esc <q> s<hex bytes> <forms> = <impl>  → literal text Spec.Literal.escape produces (the harness
                                     feeds exactly that text to golua), `|`, and its decoding

  Codes: atoms a..h; binary O A L M G H E N P X B S R C D U T V W Q Y
  (or and < <= > >= == ~= | ~ & << >> .. + - * / // % ^); unary 1 2 3 4 (- not # ~);
  tokens: atoms, `(`, `)`, the binary codes (U = `-`, X = `~`), 2 = not, 3 = #.
-/
import Oracle.Proto
import Oracle.C02
import GoluaVerif.Model.ParseExp
import GoluaVerif.Spec.Literal
namespace Oracle.C12
open GoluaVerif.Spec.Grammar GoluaVerif.Model GoluaVerif.Spec.Literal GoluaVerif.Model.Literal

def binCodes : List (Char × BinOp) :=
  [('O', .or), ('A', .and), ('L', .lt), ('M', .le), ('G', .gt), ('H', .ge), ('E', .eq), ('N', .ne),
   ('P', .bor), ('X', .bxor), ('B', .band), ('S', .shl), ('R', .shr), ('C', .concat), ('D', .add),
   ('U', .sub), ('T', .mul), ('V', .div), ('W', .idiv), ('Q', .mod), ('Y', .pow)]
def unCodes : List (Char × UnOp) := [('1', .neg), ('2', .not), ('3', .len), ('4', .bnot)]

def binOfChar (c : Char) : Option BinOp := (binCodes.find? (·.1 == c)).map (·.2)
def charOfBin (o : BinOp) : Char := ((binCodes.find? (·.2 == o)).map (·.1)).getD '?'
def unOfChar (c : Char) : Option UnOp := (unCodes.find? (·.1 == c)).map (·.2)
def charOfUn (o : UnOp) : Char := ((unCodes.find? (·.2 == o)).map (·.1)).getD '?'

def showExp : Exp → String
  | .atom n => String.singleton (Char.ofNat ('a'.toNat + n))
  | .un u e => String.singleton (charOfUn u) ++ showExp e
  | .bin o l r => String.singleton (charOfBin o) ++ showExp l ++ showExp r

/-- parse the annotated prefix code: returns tree, redundant-paren table (path ↦ count), rest -/
partial def readTree (cs : List Char) (path : List Nat) : Option (Exp × List (List Nat × Nat) × List Char) :=
  let rec marks (cs : List Char) (k : Nat) : Nat × List Char :=
    match cs with
    | '\'' :: r => marks r (k + 1)
    | _ => (k, cs)
  let (k, cs) := marks cs 0
  let here := if k = 0 then [] else [(path, k)]
  match cs with
  | c :: r =>
    if 'a' ≤ c ∧ c ≤ 'h' then some (.atom (c.toNat - 'a'.toNat), here, r)
    else match unOfChar c with
      | some u => match readTree r (path ++ [0]) with
        | some (e, t, r') => some (.un u e, here ++ t, r')
        | none => none
      | none => match binOfChar c with
        | some o => match readTree r (path ++ [0]) with
          | some (l, t1, r1) => match readTree r1 (path ++ [1]) with
            | some (rr, t2, r2) => some (.bin o l rr, here ++ t1 ++ t2, r2)
            | none => none
          | none => none
        | none => none
  | [] => none

def tokOfChar (c : Char) : Option Token :=
  if 'a' ≤ c ∧ c ≤ 'h' then some (.atom (c.toNat - 'a'.toNat))
  else if c == '(' then some .lp else if c == ')' then some .rp
  else if c == '2' then some (.sym .not) else if c == '3' then some (.sym .hash)
  else (binOfChar c).map fun o => .sym o.sym

def readToks (s : String) : Option (List Token) := s.toList.mapM tokOfChar

def parseShow (ts : List Token) : String :=
  match ParseExp.parse ts with
  | some e => showExp e
  | none => "none"

def bytesOut (o : Option (List UInt8)) : String :=
  match o with
  | some b => "s" ++ hexOfBytes (ByteArray.mk (List.toArray b))
  | none => "E"

/-- forms: one letter per byte: r raw, n named, d dec3, m decMin, x hex lower, X hex upper,
    u \u{..}, v \u{000..}, l/c/k/j newline lf/cr/crlf/lfcr; upper-case Z before a letter = `\z` + " \n\t" -/
def readForms (cs : List Char) : List Choice :=
  match cs with
  | 'Z' :: c :: r => { (readForms [c]).headD { form := .dec3 } with zskip := some [32, 10, 9] } :: readForms r
  | c :: r =>
    let f : Form := match c with
      | 'r' => .raw | 'n' => .named | 'd' => .dec3 | 'm' => .decMin | 'x' => .hex false | 'X' => .hex true
      | 'u' => .uni 0 | 'v' => .uni 3 | 'l' => .nl .lf | 'c' => .nl .cr | 'k' => .nl .crlf | 'j' => .nl .lfcr
      | _ => .dec3
    { form := f } :: readForms r
  | [] => []

/-! ### value of an expression tree whose leaves are given values (numeric literals): the MEANING
    that every spelling of the tree must have.  Number semantics come from Spec.Num through the C02
    oracle functions; `^` is computed exactly and only answered when the exact power is a double. -/

inductive R where
  | val (v : V)
  | err
  | unk

def ofProto (s : String) : R :=
  if s == "E" then .err else if s == "?" || s == "bad-line" then .unk
  else match V.parse s with
    | some v => .val v
    | none => .unk

/-- numbers, and strings that denote numbers, as numbers (arithmetic coercion) -/
def asNumber : V → Option V
  | .int n => some (.int n)
  | .flt b => some (.flt b)
  | .str s => match GoluaVerif.Spec.Numeral.str2number s.toList with
    | some (.int n) => some (.int n)
    | some (.flt f) => some (.flt (F64.toBits f))
    | none => none
  | _ => none

def toF64 : V → Option GoluaVerif.F64
  | .int n => some (GoluaVerif.F64.ofI64 n)
  | .flt b => some (F64.ofBits b)
  | _ => none

/-- x ^ y when the exact result is representable (y a small integer), else unknown -/
def powExact (x y : V) : R :=
  match toF64 x, toF64 y with
  | some (.fin na ma), some (.fin nb mb) =>
    let scale := GoluaVerif.F64.scale
    if mb % scale != 0 then .unk else
    let k := mb / scale
    if k > 64 then .unk else
    if k == 0 then .val (.flt (F64.toBits (.fin false scale)))
    else if ma == 0 then (if nb then .unk else .val (.flt (F64.toBits (.fin (na && k % 2 == 1) 0))))
    else
      let neg := na && k % 2 == 1
      let (n, d) : Nat × Nat := if nb then (2 ^ (1074 * (k + 1)), ma ^ k) else (ma ^ k, 2 ^ (1074 * (k - 1)))
      let r := GoluaVerif.Spec.Numeral.roundRat n d
      if r * d != n || r ≥ 2 ^ 2098 then .unk else .val (.flt (F64.toBits (.fin neg r)))
  | _, _ => .unk

def truthy : V → Bool
  | .nil => false
  | .bool b => b
  | _ => true

def bytesLt : List UInt8 → List UInt8 → Bool
  | [], [] => false
  | [], _ :: _ => true
  | _ :: _, [] => false
  | a :: r, b :: t => if a < b then true else if b < a then false else bytesLt r t

def c02name : BinOp → String
  | .add => "add" | .sub => "sub" | .mul => "mul" | .div => "div" | .mod => "mod" | .idiv => "idiv"
  | .band => "band" | .bor => "bor" | .bxor => "bxor" | .shl => "shl" | .shr => "shr"
  | .lt => "lt" | .le => "le" | .gt => "gt" | .ge => "ge" | .eq => "eq" | .ne => "ne"
  | _ => "?"

def isNum : V → Bool
  | .int _ => true | .flt _ => true | _ => false

def evalBin (o : BinOp) (x y : V) : R :=
  match o with
  | .and => .val (if truthy x then y else x)
  | .or => .val (if truthy x then x else y)
  | .add | .sub | .mul | .div | .mod | .idiv =>
    match asNumber x, asNumber y with
    | some a, some b => ofProto (Oracle.C02.bin (c02name o) a b)
    | _, _ => .err
  | .pow =>
    match asNumber x, asNumber y with
    | some a, some b => powExact a b
    | _, _ => .err
  | .band | .bor | .bxor | .shl | .shr =>
    if isNum x && isNum y then ofProto (Oracle.C02.bin (c02name o) x y)
    else match x, y with
      | .str _, _ => .unk
      | _, .str _ => .unk
      | _, _ => .err
  | .concat =>
    let part : V → Option (Option (List UInt8)) := fun v => match v with
      | .int n => some (some (toString n.toInt).toUTF8.toList)
      | .str s => some (some s.toList)
      | .flt _ => some none
      | _ => none
    match part x, part y with
    | some (some a), some (some b) => .val (.str (ByteArray.mk (List.toArray (a ++ b))))
    | some _, some _ => .unk
    | _, _ => .err
  | .lt | .le | .gt | .ge =>
    if isNum x && isNum y then ofProto (Oracle.C02.bin (c02name o) x y)
    else match x, y with
      | .str a, .str b =>
        let a := a.toList
        let b := b.toList
        .val (.bool (match o with
          | .lt => bytesLt a b | .le => !bytesLt b a | .gt => bytesLt b a | _ => !bytesLt a b))
      | _, _ => .err
  | .eq | .ne =>
    let e : Option Bool :=
      if isNum x && isNum y then
        (match Oracle.C02.bin "eq" x y with | "t" => some true | "F" => some false | _ => none)
      else match x, y with
        | .str a, .str b => some (a.toList == b.toList)
        | .bool a, .bool b => some (a == b)
        | .nil, .nil => some true
        | _, _ => some false
    match e with
    | some b => .val (.bool (if o == .eq then b else !b))
    | none => .unk

def evalUn (u : UnOp) (x : V) : R :=
  match u with
  | .not => .val (.bool (!truthy x))
  | .len => match x with
    | .str s => .val (.int (BitVec.ofNat 64 s.size))
    | _ => .err
  | .neg => match asNumber x with
    | some a => ofProto (Oracle.C02.un "unm" a)
    | none => .err
  | .bnot => if isNum x then ofProto (Oracle.C02.un "bnot" x) else match x with
    | .str _ => .unk
    | _ => .err

def evalExp (leaf : Nat → Option V) : Exp → R
  | .atom n => match leaf n with
    | some v => .val v
    | none => .unk
  | .un u e => match evalExp leaf e with
    | .val v => evalUn u v
    | r => r
  | .bin o l r =>
    match evalExp leaf l with
    | .val x =>
      -- `and` / `or` do not evaluate their right operand when the left decides
      if o == .and && !truthy x then .val x
      else if o == .or && truthy x then .val x
      else match evalExp leaf r with
        | .val y => evalBin o x y
        | r => r
    | r => r

def R.show : R → String
  | .val v => v.show
  | .err => "E"
  | .unk => "?"

/-- shape of an expression list: s = single, m<k> = call/vararg with k values, p<k> = the same in parentheses -/
def readShape (s : String) : Option (List ListItem) :=
  (s.splitOn ",").mapM fun it =>
    if it == "s" then some .single
    else if it.startsWith "m" then (it.drop 1).toString.toNat?.map fun k => .multi k false
    else if it.startsWith "p" then (it.drop 1).toString.toNat?.map fun k => .multi k true
    else none

def handle (line : String) : String :=
  match line.splitOn " " with
  | ["exp", tree, toks, "=", _] =>
    match readTree tree.toList [], readToks toks with
    | some (e, table, []), some ts =>
      let ps : Parens := fun p => ((table.find? (·.1 == p)).map (·.2)).getD 0
      if render e ps == ts then parseShow ts else "render-mismatch"
    | _, _ => "bad-line"
  | ["eval", tree, vals, "=", _] =>
    match readTree tree.toList [] with
    | some (e, _, []) =>
      let vs := (vals.splitOn ",").map V.parse
      (evalExp (fun i => (vs.getD i none)) e).show
    | _ => "bad-line"
  | ["mv", cap, shape, "=", _] =>
    match readShape shape, cap.toNat? with
    | some items, some c =>
      let n := explistCount items
      toString (if c == 0 then n else min n c)
    | _, _ => "bad-line"
  | ["badexp", toks, "=", _] =>
    match readToks toks with
    | some ts => (match firstBad ts with
      | some i => toString i
      | none => "ok")
    | none => "bad-line"
  | ["toks", toks, "=", _] =>
    match readToks toks with
    | some ts => parseShow ts
    | none => "bad-line"
  | ["short", lit, "=", _] =>
    match V.parse lit with
    | some (.str s) => bytesOut (decodeShort s.toList)
    | _ => "bad-line"
  | ["long", lit, "=", _] =>
    match V.parse lit with
    | some (.str s) => bytesOut (decodeLong s.toList)
    | _ => "bad-line"
  | ["esc", q, bs, forms] =>
    match V.parse bs with
    | some (.str s) =>
      let fs := readForms forms.toList
      let ch : Nat → Choice := fun i => fs.getD i { form := .dec3 }
      let qb : UInt8 := if q == "'" then 39 else 34
      let lit := escape qb s.toList ch
      "s" ++ hexOfBytes (ByteArray.mk (List.toArray lit)) ++ " " ++ bytesOut (decodeShort lit)
    | _ => "bad-line"
  | _ => "bad-line"

def main (_args : List String) : IO UInt32 := do
  let stdin ← IO.getStdin
  let stdout ← IO.getStdout
  forEachLine stdin fun line => stdout.putStrLn (handle line)
  return 0

end Oracle.C12
