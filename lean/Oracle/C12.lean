/-
  Oracle.C12 — expected results for the C12 harness lines.

    exp <tree> <tokens> = <impl>     tree: prefix code, each node preceded by one `'` per redundant
                                     parenthesis pair; tokens: what the harness rendered.
                                     → `render-mismatch` if Spec.Grammar.render tree ps ≠ tokens,
                                       else the prefix code of Model.ParseExp.parse tokens (or `none`)
    toks <tokens> = <impl>           → prefix code of Model.ParseExp.parse tokens (or `none`)
    short s<hex literal> = <impl>    → s<hex of Model.Literal.decodeShort> or E
    long s<hex literal> = <impl>     → s<hex of Model.Literal.decodeLong> or E
    esc <q> s<hex bytes> <forms> = <impl>  → literal text Spec.Literal.escape produces (the harness
                                     feeds exactly that text to golua), `|`, and its decoding

  Codes: atoms a..h; binary O A L M G H E N P X B S R C D U T V W Q Y
  (or and < <= > >= == ~= | ~ & << >> .. + - * / // % ^); unary 1 2 3 4 (- not # ~);
  tokens: atoms, `(`, `)`, the binary codes (U = `-`, X = `~`), 2 = not, 3 = #.
-/
import Oracle.Proto
import GoluaVerif.Model.ParseExp
import GoluaVerif.Spec.Literal
namespace Oracle.C12
open GoluaVerif.Spec.Grammar GoluaVerif.Model GoluaVerif.Spec.Literal GoluaVerif.Model.Literal

def binCodes : List (Char × BinOp) :=
  [('O', .or), ('A', .and), ('L', .lt), ('M', .le), ('G', .gt), ('H', .ge), ('E', .eq), ('N', .ne),
   ('P', .bor), ('X', .bxor), ('B', .band), ('S', .shl), ('R', .shr), ('C', .concat), ('D', .add),
   ('U', .sub), ('T', .mul), ('V', .div), ('W', .idiv), ('Q', .mod), ('Y', .pow)]
def unCodes : List (Char × UnOp) := [('1', .neg), ('2', .not), ('3', .len), ('4', .bnot)]

def binOfChar (c : Char) : Option BinOp := (binCodes.find? (·.1 == c)).map (·.2)
def charOfBin (o : BinOp) : Char := ((binCodes.find? (·.2 == o)).map (·.1)).getD '?'
def unOfChar (c : Char) : Option UnOp := (unCodes.find? (·.1 == c)).map (·.2)
def charOfUn (o : UnOp) : Char := ((unCodes.find? (·.2 == o)).map (·.1)).getD '?'

def showExp : Exp → String
  | .atom n => String.singleton (Char.ofNat ('a'.toNat + n))
  | .un u e => String.singleton (charOfUn u) ++ showExp e
  | .bin o l r => String.singleton (charOfBin o) ++ showExp l ++ showExp r

/-- parse the annotated prefix code: returns tree, redundant-paren table (path ↦ count), rest -/
partial def readTree (cs : List Char) (path : List Nat) : Option (Exp × List (List Nat × Nat) × List Char) :=
  let rec marks (cs : List Char) (k : Nat) : Nat × List Char :=
    match cs with
    | '\'' :: r => marks r (k + 1)
    | _ => (k, cs)
  let (k, cs) := marks cs 0
  let here := if k = 0 then [] else [(path, k)]
  match cs with
  | c :: r =>
    if 'a' ≤ c ∧ c ≤ 'h' then some (.atom (c.toNat - 'a'.toNat), here, r)
    else match unOfChar c with
      | some u => match readTree r (path ++ [0]) with
        | some (e, t, r') => some (.un u e, here ++ t, r')
        | none => none
      | none => match binOfChar c with
        | some o => match readTree r (path ++ [0]) with
          | some (l, t1, r1) => match readTree r1 (path ++ [1]) with
            | some (rr, t2, r2) => some (.bin o l rr, here ++ t1 ++ t2, r2)
            | none => none
          | none => none
        | none => none
  | [] => none

def tokOfChar (c : Char) : Option Token :=
  if 'a' ≤ c ∧ c ≤ 'h' then some (.atom (c.toNat - 'a'.toNat))
  else if c == '(' then some .lp else if c == ')' then some .rp
  else if c == '2' then some (.sym .not) else if c == '3' then some (.sym .hash)
  else (binOfChar c).map fun o => .sym o.sym

def readToks (s : String) : Option (List Token) := s.toList.mapM tokOfChar

def parseShow (ts : List Token) : String :=
  match ParseExp.parse ts with
  | some e => showExp e
  | none => "none"

def bytesOut (o : Option (List UInt8)) : String :=
  match o with
  | some b => "s" ++ hexOfBytes (ByteArray.mk (List.toArray b))
  | none => "E"

/-- forms: one letter per byte: r raw, n named, d dec3, m decMin, x hex lower, X hex upper,
    u \u{..}, v \u{000..}, l/c/k/j newline lf/cr/crlf/lfcr; upper-case Z before a letter = `\z` + " \n\t" -/
def readForms (cs : List Char) : List Choice :=
  match cs with
  | 'Z' :: c :: r => { (readForms [c]).headD { form := .dec3 } with zskip := some [32, 10, 9] } :: readForms r
  | c :: r =>
    let f : Form := match c with
      | 'r' => .raw | 'n' => .named | 'd' => .dec3 | 'm' => .decMin | 'x' => .hex false | 'X' => .hex true
      | 'u' => .uni 0 | 'v' => .uni 3 | 'l' => .nl .lf | 'c' => .nl .cr | 'k' => .nl .crlf | 'j' => .nl .lfcr
      | _ => .dec3
    { form := f } :: readForms r
  | [] => []

def handle (line : String) : String :=
  match line.splitOn " " with
  | ["exp", tree, toks, "=", _] =>
    match readTree tree.toList [], readToks toks with
    | some (e, table, []), some ts =>
      let ps : Parens := fun p => ((table.find? (·.1 == p)).map (·.2)).getD 0
      if render e ps == ts then parseShow ts else "render-mismatch"
    | _, _ => "bad-line"
  | ["toks", toks, "=", _] =>
    match readToks toks with
    | some ts => parseShow ts
    | none => "bad-line"
  | ["short", lit, "=", _] =>
    match V.parse lit with
    | some (.str s) => bytesOut (decodeShort s.toList)
    | _ => "bad-line"
  | ["long", lit, "=", _] =>
    match V.parse lit with
    | some (.str s) => bytesOut (decodeLong s.toList)
    | _ => "bad-line"
  | ["esc", q, bs, forms] =>
    match V.parse bs with
    | some (.str s) =>
      let fs := readForms forms.toList
      let ch : Nat → Choice := fun i => fs.getD i { form := .dec3 }
      let qb : UInt8 := if q == "'" then 39 else 34
      let lit := escape qb s.toList ch
      "s" ++ hexOfBytes (ByteArray.mk (List.toArray lit)) ++ " " ++ bytesOut (decodeShort lit)
    | _ => "bad-line"
  | _ => "bad-line"

def main (_args : List String) : IO UInt32 := do
  let stdin ← IO.getStdin
  let stdout ← IO.getStdout
  forEachLine stdin fun line => stdout.putStrLn (handle line)
  return 0

end Oracle.C12
