import Oracle.Proto
namespace Oracle.C12

/-- placeholder: the oracle driver for C12 is not built yet -/
def main (_args : List String) : IO UInt32 := do
  IO.eprintln "oracle mode c12: not built"
  return 2

end Oracle.C12
