import Oracle.Proto
namespace Oracle.C17

/-- placeholder: the oracle driver for C17 is not built yet -/
def main (_args : List String) : IO UInt32 := do
  IO.eprintln "oracle mode c17: not built"
  return 2

end Oracle.C17
