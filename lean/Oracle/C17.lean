/-
  Oracle.C17 — what the Lean definitions say for the C17 harness lines.
  One output line per input line, in the syntax of the harness's right-hand
  side, optionally followed by ` | <level-A facts>`:

    pack      → ok d<hex> | err <class>          | rt=must|free rej=must|free
    unpack    → ok <v>… <next> | err <class>
    packsize  → ok i<n> | err <class>
    q         → ok <Model.quoteGo hex> <Spec.unquote of it: lerr | s<hex>>   | spec=<Spec.quote hex>
    qi        → ok <Model.quoteInt hex> <Spec.evalNumLit of it>              | spec=<Spec.quoteInt hex>
    qf        → ok <hex | ?> …
    tn        → ok <Spec.showInt hex> <Spec value>  (integers; `?` for floats)
    fmt       → ok d<hex> | err | ?
-/
import Oracle.Proto
import GoluaVerif.Model.Unpack
import GoluaVerif.Model.Quote
import GoluaVerif.Spec.Printf
namespace Oracle.C17
open GoluaVerif Oracle
open GoluaVerif.Model.Pack

def bytesOfHex (s : String) : Option (List UInt8) := (parseHexBytes s).map (·.toList)
def hexOf (b : List UInt8) : String := hexOfBytes ⟨b.toArray⟩

def parseVal (s : String) : Option Val :=
  if s == "t" || s == "F" || s == "n" then some .bad else
  match V.parse s with
  | some (.int n) => some (.int n)
  | some (.flt b) => some (.flt (BitVec.ofNat 64 b.toNat))
  | some (.str b) => some (.str b.toList)
  | _ => none

def showVal : Val → String
  | .int n => "i" ++ toString n.toInt
  | .flt b => (V.flt (UInt64.ofNat b.toNat)).show
  | .str s => "s" ++ hexOf s
  | .bad => "t"

def parseVals (ts : List String) : Option (List Val) := ts.mapM parseVal

def packLine (ts : List String) : String :=
  match ts with
  | f :: vs =>
    match bytesOfHex (f.drop 1).toString, parseVals vs with
    | some fmt, some vals =>
      let r := match pack fmt vals with
        | .ok bs => "ok d" ++ hexOf bs
        | .error e => "err " ++ e.name
      let b (x : Bool) : String := if x then "1" else "0"
      r ++ " | exact=" ++ b (exact fmt vals) ++ " ndx=" ++ b (noDanglingX fmt) ++ " rej=" ++ b (mustReject fmt vals) ++ " acc=" ++ b (mustAccept fmt vals) ++
        " mal=" ++ b (malformed fmt) ++ " abad=" ++ b (alignBad fmt)
    | _, _ => "bad-line"
  | _ => "bad-line"

def unpackLine (ts : List String) : String :=
  match ts with
  | [f, d, i] =>
    match bytesOfHex (f.drop 1).toString, bytesOfHex (d.drop 1).toString, i.toInt? with
    | some fmt, some data, some init =>
      match normInit data.length init with
      | .error e => "err " ++ e.name
      | .ok i0 =>
        (match unpack fmt data i0 with
        | .ok (vs, j) => "ok " ++ " ".intercalate (vs.map showVal ++ ["i" ++ toString (j + 1)])
        | .error .goPanic => "panic"
        | .error e => "err " ++ e.name) ++ " | mal=" ++ (if malformed fmt then "1" else "0") ++ " abad=" ++ (if alignBad fmt then "1" else "0")
    | _, _, _ => "bad-line"
  | _ => "bad-line"

def packsizeLine (ts : List String) : String :=
  match ts with
  | [f] =>
    match bytesOfHex (f.drop 1).toString with
    | some fmt =>
      (match packsize fmt with
      | .ok n => "ok i" ++ toString (BitVec.ofNat 64 n).toInt
      | .error e => "err " ++ e.name) ++ " | mal=" ++ (if malformed fmt then "1" else "0") ++ " abad=" ++ (if alignBad fmt then "1" else "0")
    | none => "bad-line"
  | _ => "bad-line"

def parseNp (s : String) : List Nat :=
  ((s.drop 3).toString.splitOn ",").filterMap parseHexNat

def qLine (ts : List String) : String :=
  match ts with
  | [sv, np] =>
    match bytesOfHex (sv.drop 1).toString with
    | some s =>
      let _ := np
      let q := Model.Quote.quoteStr s
      let back := match Spec.Quote.unquote q with
        | some b => "s" ++ hexOf b
        | none => "lerr"
      "ok " ++ hexOf q ++ " " ++ back ++ " | spec=" ++ hexOf (Spec.Quote.quote s)
    | none => "bad-line"
  | _ => "bad-line"

def showNumVal : Spec.Quote.NumVal → String
  | .int n => "i" ++ toString n.toInt
  | .flt f => (V.flt (F64.toBits f)).show

def qiLine (ts : List String) : String :=
  match ts with
  | [v] =>
    match parseVal v with
    | some (.int n) =>
      let q := Model.Quote.quoteInt n
      let back := match Spec.Quote.evalNumLit q with
        | some x => showNumVal x
        | none => "lerr"
      "ok " ++ hexOf q ++ " " ++ back ++ " | spec=" ++ hexOf (Spec.Quote.quoteInt n)
    | _ => "bad-line"
  | _ => "bad-line"

def qfLine (ts : List String) : String :=
  match ts with
  | [v] =>
    match parseVal v with
    | some (.flt b) =>
      let f := F64.decode b
      match f with
      | .fin _ _ => "?" ++ " | spec=" ++ hexOf (Spec.Quote.quoteFloat f)
      | _ =>
        let q := Model.Quote.quoteFloat (fun _ => []) f
        let back := match Spec.Quote.evalNumLit q with
          | some x => showNumVal x
          | none => "lerr"
        "ok " ++ hexOf q ++ " " ++ back ++ " | spec=" ++ hexOf (Spec.Quote.quoteFloat f)
    | _ => "bad-line"
  | _ => "bad-line"

def tnLine (ts : List String) : String :=
  match ts with
  | [v] =>
    match parseVal v with
    | some (.int n) =>
      let s := Spec.Quote.showInt n
      let back := match Spec.Quote.strToNumber s with
        | some x => showNumVal x
        | none => "n"
      "ok " ++ hexOf s ++ " " ++ back
    | some (.flt _) => "?"
    | _ => "bad-line"
  | _ => "bad-line"

def fmtLine (ts : List String) : String :=
  match ts with
  | [d, v] =>
    match bytesOfHex (d.drop 1).toString, parseVal v, V.parse v with
    | some dir, some val, some raw =>
      match Spec.Printf.parseDir dir with
      | none => "?"
      | some sp =>
        let ch := Char.ofNat sp.verb.toNat
        -- Lua 5.4 admits at most two digits of width and of precision
        if sp.width.getD 0 ≥ 100 || sp.prec.getD 0 ≥ 100 then "err" else
        let asInt : Option (Option I64) := match val with   -- some none = must be an error; none = unchecked
          | .int n => some (some n)
          | .flt b => some (floatToInt? b)
          | .str _ => none
          | .bad => some none
        if ch = 's' then
          let str : Option (List UInt8) := match raw with
            | .str b => some b.toList
            | .int n => some (Spec.Quote.showInt n)
            | .bool true => some "true".toUTF8.toList
            | .bool false => some "false".toUTF8.toList
            | .nil => some "nil".toUTF8.toList
            | _ => none
          if sp.plus || sp.space || sp.hash || sp.zero then "?" else
          match str with
          | some b => "ok d" ++ hexOf (Spec.Printf.fmtStr sp b)
          | none => "?"
        else if ch = 'c' then
          if sp.plus || sp.space || sp.hash || sp.zero || sp.prec.isSome then "?" else
          match asInt with
          | some (some n) => "ok d" ++ hexOf (Spec.Printf.fmtChar sp n)
          | some none => "err"
          | none => "?"
        else
          match asInt with
          | some (some n) =>
            match Spec.Printf.fmtInt sp n with
            | some b => "ok d" ++ hexOf b
            | none => "?"
          | some none => if (Spec.Printf.fmtInt sp 0#64).isSome then "err" else "?"
          | none => "?"
    | _, _, _ => "bad-line"
  | _ => "bad-line"

def line (l : String) : String :=
  let lhs := (l.splitOn " = ").headD ""
  match (lhs.splitOn " ").filter (· ≠ "") with
  | "pack" :: ts => packLine ts
  | "unpack" :: ts => unpackLine ts
  | "packsize" :: ts => packsizeLine ts
  | "q" :: ts => qLine ts
  | "qi" :: ts => qiLine ts
  | "qf" :: ts => qfLine ts
  | "tn" :: ts => tnLine ts
  | "fmt" :: ts => fmtLine ts
  | "fmt0" :: _ => "?"
  | _ => "bad-line"

def main (_args : List String) : IO UInt32 := do
  let stdin ← IO.getStdin
  let stdout ← IO.getStdout
  forEachLine stdin fun l => stdout.putStrLn (line l)
  return 0

end Oracle.C17
