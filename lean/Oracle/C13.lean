import Oracle.Proto
namespace Oracle.C13

/-- placeholder: the oracle driver for C13 is not built yet -/
def main (_args : List String) : IO UInt32 := do
  IO.eprintln "oracle mode c13: not built"
  return 2

end Oracle.C13
