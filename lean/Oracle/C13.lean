/-
  Oracle.C13 — what Model.Marshal says for the C13 harness lines.

    dump <id> <tree tokens…> = x<hex>   →  m=<0|1> u=<0|1> r=<0|1> [first differing byte offset]
         m: Model.marshal(tree) = the bytes string.dump returned
         u: Model.unmarshal(bytes) = ok (tree, [])
         r: Model.marshal(Model.unmarshal(bytes)) = bytes
    unit <id> P <proto> <n> <unit constants…> = <tree tokens>   →  R=<0|1>
         R: Model.Refactor.refactor of the unrefactored prototype (with the chunk's shared constant vector) = the tree
            the real RefactorCodeConsts produced
    load <index> x<hex> = …             →  ok | err   (Model.load)
-/
import Oracle.Proto
import GoluaVerif.Model.Marshal
import GoluaVerif.Model.Refactor
namespace Oracle.C13
open GoluaVerif Oracle
open GoluaVerif.Model.Marshal

def bytesOfHex (s : String) : Option (List UInt8) := (parseHexBytes s).map (·.toList)
def hexOf (b : List UInt8) : String := hexOfBytes ⟨b.toArray⟩

def takeTok : List String → Option (String × List String)
  | [] => none
  | t :: ts => some (t, ts)

def parseNat? (s : String) : Option Nat := s.toNat?

def parseStrTok (t : String) : Option (List UInt8) :=
  if t.startsWith "S" then bytesOfHex (t.drop 1).toString else none

def parseMany {α} (f : List String → Option (α × List String)) : Nat → List String → Option (List α × List String)
  | 0, ts => some ([], ts)
  | n + 1, ts => do
    let (a, ts1) ← f ts
    let (as, ts2) ← parseMany f n ts1
    pure (a :: as, ts2)

def parseWord (ts : List String) : Option (BitVec 32 × List String) := do
  let (t, r) ← takeTok ts
  let n ← parseHexNat t
  pure (BitVec.ofNat 32 n, r)

def parseLine (ts : List String) : Option (BitVec 32 × List String) := do
  let (t, r) ← takeTok ts
  let n ← t.toInt?
  pure (BitVec.ofInt 32 n, r)

def parseStr (ts : List String) : Option (List UInt8 × List String) := do
  let (t, r) ← takeTok ts
  let s ← parseStrTok t
  pure (s, r)

partial def parseConst (ts : List String) : Option (Const × List String) := do
  let (t, r) ← takeTok ts
  if t == "C" then
    let (src, r) ← parseStr r
    let (name, r) ← parseStr r
    let (n, r) ← takeTok r
    let (ops, r) ← parseMany parseWord (← parseNat? n) r
    let (n, r) ← takeTok r
    let (lines, r) ← parseMany parseLine (← parseNat? n) r
    let (n, r) ← takeTok r
    let (ks, r) ← parseMany parseConst (← parseNat? n) r
    let (uv, r) ← takeTok r
    let (rc, r) ← takeTok r
    let (cc, r) ← takeTok r
    let (n, r) ← takeTok r
    let (ups, r) ← parseMany parseStr (← parseNat? n) r
    pure (.code src name ops lines ks (BitVec.ofInt 16 (← uv.toInt?)) (BitVec.ofInt 16 (← rc.toInt?))
      (BitVec.ofInt 16 (← cc.toInt?)) ups, r)
  else if t.startsWith "I" then
    let n ← (t.drop 1).toString.toInt?
    pure (.int (BitVec.ofInt 64 n), r)
  else if t.startsWith "D" then
    let n ← parseHexNat (t.drop 1).toString
    pure (.float (BitVec.ofNat 64 n), r)
  else if t.startsWith "S" then
    let s ← bytesOfHex (t.drop 1).toString
    pure (.str s, r)
  else none

partial def showConst : Const → List String
  | .int n => ["I" ++ toString n.toInt]
  | .float b => ["D" ++ hexOfNat b.toNat 16]
  | .str s => ["S" ++ hexOf s]
  | .code src name ops lines ks uv rc cc ups =>
    ["C", "S" ++ hexOf src, "S" ++ hexOf name, toString ops.length] ++ ops.map (fun w => hexOfNat w.toNat 8) ++
    [toString lines.length] ++ lines.map (fun l => toString l.toInt) ++
    [toString ks.length] ++ (ks.map showConst).flatten ++
    [toString uv.toInt, toString rc.toInt, toString cc.toInt, toString ups.length] ++ ups.map (fun s => "S" ++ hexOf s)

open GoluaVerif.Model.Refactor in
def parseProto (r : List String) : Option (Proto × List String) := do
  let (src, r) ← parseStr r
  let (name, r) ← parseStr r
  let (n, r) ← takeTok r
  let (ops, r) ← parseMany parseWord (← parseNat? n) r
  let (n, r) ← takeTok r
  let (lines, r) ← parseMany parseLine (← parseNat? n) r
  let (uv, r) ← takeTok r
  let (rc, r) ← takeTok r
  let (cc, r) ← takeTok r
  let (n, r) ← takeTok r
  let (ups, r) ← parseMany parseStr (← parseNat? n) r
  pure ({ source := src, name := name, ops := ops, lines := lines, uv := BitVec.ofInt 16 (← uv.toInt?),
          rc := BitVec.ofInt 16 (← rc.toInt?), cc := BitVec.ofInt 16 (← cc.toInt?), ups := ups }, r)

open GoluaVerif.Model.Refactor in
def parseUConst (ts : List String) : Option (UConst × List String) := do
  let (t, r) ← takeTok ts
  if t == "P" then
    let (p, r) ← parseProto r
    pure (.code p, r)
  else if t.startsWith "I" then
    let n ← (t.drop 1).toString.toInt?
    pure (.int (BitVec.ofInt 64 n), r)
  else if t.startsWith "D" then
    let n ← parseHexNat (t.drop 1).toString
    pure (.float (BitVec.ofNat 64 n), r)
  else if t.startsWith "S" then
    let s ← bytesOfHex (t.drop 1).toString
    pure (.str s, r)
  else none

def firstDiffTok : List String → List String → Nat → Option Nat
  | [], [], _ => none
  | a :: as, b :: bs, i => if a == b then firstDiffTok as bs (i + 1) else some i
  | _, _, i => some i

/-- `unit <id> P <proto> <n> <uconst>… = <tree tokens of the real RefactorCodeConsts>`: R=1 iff Model.Refactor agrees -/
def unitLine (lhs rhs : String) : String :=
  match (lhs.splitOn " ").filter (· ≠ "") with
  | _ :: _ :: "P" :: toks =>
    match parseProto toks with
    | some (p, n :: rest) =>
      match parseNat? n with
      | some k =>
        match parseMany parseUConst k rest with
        | some (unit, []) =>
          let want := (rhs.splitOn " ").filter (· ≠ "")
          match GoluaVerif.Model.Refactor.refactor 1024 unit p with
          | .ok c =>
            let got := showConst c
            (match firstDiffTok got want 0 with
             | none => "R=1"
             | some i => "R=0 token@" ++ toString i)
          | .error e => "R=0 model-error-" ++ reprStr e
        | _ => "bad-line"
      | none => "bad-line"
    | _ => "bad-line"
  | _ => "bad-line"

def firstDiff : List UInt8 → List UInt8 → Nat → Option Nat
  | [], [], _ => none
  | a :: as, b :: bs, i => if a = b then firstDiff as bs (i + 1) else some i
  | _, _, i => some i

def dumpLine (lhs rhs : String) : String :=
  match (lhs.splitOn " ").filter (· ≠ "") with
  | _ :: _ :: toks =>
    match parseConst toks, bytesOfHex (rhs.drop 1).toString with
    | some (c, []), some bs =>
      let m := marshal c
      let b (x : Bool) : String := if x then "1" else "0"
      let (u, r) := match unmarshal bs with
        | .ok (c', []) => (showConst c' == toks, marshal c' == bs)
        | _ => (false, false)
      "m=" ++ b (m == bs) ++ " u=" ++ b u ++ " r=" ++ b r ++
        (match firstDiff m bs 0 with | some i => " diff@" ++ toString i | none => "")
    | _, _ => "bad-line"
  | _ => "bad-line"

def loadLine (lhs : String) : String :=
  match (lhs.splitOn " ").filter (· ≠ "") with
  | [_, _, _, h] =>
    match bytesOfHex (h.drop 1).toString with
    | some bs =>
      match load bs with
      | .ok _ => "ok"
      | .error _ => "err"
    | none => "bad-line"
  | _ => "bad-line"

def line (l : String) : String :=
  match l.splitOn " = " with
  | [lhs, rhs] =>
    if lhs.startsWith "dump " then dumpLine lhs rhs
    else if lhs.startsWith "unit " then unitLine lhs rhs
    else if lhs.startsWith "load " then loadLine lhs
    else "?"
  | [lhs] => if lhs.startsWith "load " then loadLine lhs else "?"
  | _ => "?"

def main (_args : List String) : IO UInt32 := do
  let stdin ← IO.getStdin
  let stdout ← IO.getStdout
  forEachLine stdin fun l => stdout.putStrLn (line l)
  return 0

end Oracle.C13
