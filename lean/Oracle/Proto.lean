/-
  Oracle.Proto — line-protocol helpers shared by all oracle drivers.
  Values:  n | t | F | i<decimal> | f<16 hex digits, IEEE bits> | s<hex bytes> | o<type>
-/
import GoluaVerif.Base.F64
namespace Oracle
open GoluaVerif

inductive V where
  | nil
  | bool (b : Bool)
  | int (n : BitVec 64)
  | flt (bits : UInt64)
  | str (s : ByteArray)
  | other (tag : String)
  deriving Inhabited

def hexDigit? (c : Char) : Option Nat :=
  if '0' ≤ c ∧ c ≤ '9' then some (c.toNat - '0'.toNat)
  else if 'a' ≤ c ∧ c ≤ 'f' then some (c.toNat - 'a'.toNat + 10)
  else if 'A' ≤ c ∧ c ≤ 'F' then some (c.toNat - 'A'.toNat + 10)
  else none

def parseHexNat (s : String) : Option Nat :=
  if s.isEmpty then none else
  s.foldl (fun acc c => match acc, hexDigit? c with
    | some a, some d => some (a * 16 + d)
    | _, _ => none) (some 0)

def parseHexBytes (s : String) : Option ByteArray := Id.run do
  let cs := s.toList
  if cs.length % 2 ≠ 0 then return none
  let mut out := ByteArray.empty
  let mut rest := cs
  while true do
    match rest with
    | a :: b :: tl =>
      match hexDigit? a, hexDigit? b with
      | some x, some y => out := out.push (UInt8.ofNat (x * 16 + y)); rest := tl
      | _, _ => return none
    | _ => break
  return some out

def hexOfNat (n : Nat) (digits : Nat) : String :=
  let rec go (n : Nat) (k : Nat) (acc : List Char) : List Char :=
    match k with
    | 0 => acc
    | k + 1 => go (n / 16) k (Nat.digitChar (n % 16) :: acc)
  String.ofList (go n digits [])

def hexOfBytes (b : ByteArray) : String :=
  b.foldl (fun s x => s ++ hexOfNat x.toNat 2) ""

def V.parse (s : String) : Option V :=
  if s.isEmpty then none else
  let rest := s.drop 1 |>.toString
  match s.front with
  | 'n' => some .nil
  | 't' => some (.bool true)
  | 'F' => some (.bool false)
  | 'i' => rest.toInt?.map fun n => .int (BitVec.ofInt 64 n)
  | 'f' => (parseHexNat rest).map fun n => .flt (UInt64.ofNat n)
  | 's' => (parseHexBytes rest).map .str
  | 'o' => some (.other rest)
  | _ => none

def isNaNBits (b : UInt64) : Bool :=
  (b >>> 52) &&& 0x7FF == 0x7FF && (b &&& 0xFFFFFFFFFFFFF) != 0

/-- floats print as IEEE bits; every NaN prints as `fnan` -/
def V.show : V → String
  | .nil => "n"
  | .bool true => "t"
  | .bool false => "F"
  | .int n => "i" ++ toString n.toInt
  | .flt b => if isNaNBits b then "fnan" else "f" ++ hexOfNat b.toNat 16
  | .str s => "s" ++ hexOfBytes s
  | .other t => "o" ++ t

def fbits (f : Float) : V := .flt f.toBits
def F64.ofBits (b : UInt64) : F64 := F64.decode (BitVec.ofNat 64 b.toNat)
def F64.toBits (f : F64) : UInt64 := UInt64.ofNat (F64.encode f).toNat

/-- read stdin line by line until EOF -/
partial def forEachLine (h : IO.FS.Stream) (f : String → IO Unit) : IO Unit := do
  let line ← h.getLine
  if line.isEmpty then return ()
  f (line.dropEndWhile (fun c => c == '\n' || c == '\r')).toString
  forEachLine h f

end Oracle
