import Oracle.Proto
namespace Oracle.C05

/-- placeholder: the oracle driver for C05 is not built yet -/
def main (_args : List String) : IO UInt32 := do
  IO.eprintln "oracle mode c05: not built"
  return 2

end Oracle.C05
