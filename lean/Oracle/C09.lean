/-
  Oracle.C09 — what Spec.Co prescribes for the coroutine scripts of harness/cmd/c09.

  Modes:
    (stdin lines `<script tokens> => …`)   → one line per script in the harness's format
         `<events> | F <final statuses> | G <d1> <d2> | <outcome> | X <killed coroutines>`
         computed by interpreting the script on `Spec.Co.step` (the definitions Props.C09 is about)
    `oracle c09 disc`                        → the violations of the discipline `Disc` in the event
         table regenerated from thread.go (`Model.CoProto.discViolations Generated.table`), one per line
-/
import Oracle.Proto
import GoluaVerif.Spec.Co
import GoluaVerif.Model.CoProto
import GoluaVerif.Generated.ThreadEvents
namespace Oracle.C09
open GoluaVerif.Spec.Co

inductive Kind | none | create | wrap
  deriving DecidableEq, Inhabited

/-- what a suspended coroutine does first when it is resumed -/
inductive Pend | fresh | yielded | pyielded | pyieldedG | fyielded | exhausted
  deriving DecidableEq, Inhabited

structure CoInfo where
  kind : Kind := .none
  mode : Nat := 0
  started : Bool := false
  pend : Pend := .fresh
  waitK : Nat := 0          -- the coroutine this thread is resuming …
  waitWrap : Bool := false  -- … through a wrap function?
  deriving Inhabited

structure ScriptSt where
  sp : State := init
  info : Nat → CoInfo := fun _ => {}
  events : List String := []     -- reversed
  guards : Nat → List String := fun _ => []   -- pending to-be-closed guards of each thread, innermost first (tags)
  gseq : Nat → Nat := fun _ => 0              -- inner guards declared so far by each thread
  quiet : Bool := false                        -- cleanup phase: only handler events are recorded
  killed : List Nat := []
  outcome : String := ""
  bad : Bool := false

inductive Action
  | create (k mode : Nat) (wrap : Bool)
  | resume (k : Nat) (vs : List Val)
  | yield (vs : List Val) | pyield (vs : List Val)
  | pyieldG (vs : List Val) | fyield (vs : List Val) | pgerr (v : Val) | ferr (v : Val)
  | ret (vs : List Val) | err (v : Val) | perr (v : Val)
  | close (k : Nat) | status (k : Nat) | isYieldable | spin
  deriving Inhabited

def showVals (vs : List Val) : String := String.join (vs.map (fun v => " " ++ toString v))
def showOpt : Option Val → String
  | none => "n"
  | some v => toString v

def ScriptSt.emit (s : ScriptSt) (e : String) : ScriptSt :=
  if s.quiet && !(e.startsWith "T " || e.startsWith "H ") then s else { s with events := e :: s.events }

/-- the thread declares an inner to-be-closed guard: tag <thread>.<n> -/
def ScriptSt.pushInner (s : ScriptSt) (me : Nat) : ScriptSt :=
  let n := s.gseq me + 1
  { s with gseq := upd s.gseq me n, guards := upd s.guards me (s!"{me}.{n}" :: s.guards me),
           sp := (step s.sp .mark).1 }
def ScriptSt.setInfo (s : ScriptSt) (k : Nat) (f : CoInfo → CoInfo) : ScriptSt :=
  { s with info := upd s.info k (f (s.info k)) }

def statusName : Status → String
  | .suspended => "suspended" | .running => "running" | .normal => "normal" | .dead => "dead"

/-- the spec's `tbc` events as trace events: the closed guard is the innermost pending one of that thread -/
def closeEvents (s : ScriptSt) (evs : List Event) : ScriptSt :=
  evs.foldl (fun s e =>
    match e with
    | .tbc t err =>
      let tag := (s.guards t).headD "?"
      let s := { s with guards := upd s.guards t ((s.guards t).drop 1) }
      let s := s.emit s!"T {tag} {showOpt err}"
      if tag == toString t && (s.info t).mode == 2 then s.emit s!"H {t} t 1" else s
    | _ => s) s

/-- turn the spec's events into trace events (and bookkeeping) -/
def handleEvents (s : ScriptSt) (evs : List Event) (me : Nat) (closing : Option Nat) : ScriptSt :=
  evs.foldl (fun s e =>
    match e with
    | .tbc t err =>
      let tag := (s.guards t).headD "?"
      let s := { s with guards := upd s.guards t ((s.guards t).drop 1) }
      let s := s.emit s!"T {tag} {showOpt err}"
      if tag == toString t && (s.info t).mode == 2 then s.emit s!"H {t} t 1" else s
    | .deliver to m =>
      let tag := if (s.info to).waitWrap then "W" else "R"
      let k := (s.info to).waitK
      match m with
      | .args vs =>
        match (s.info to).pend with
        | .fresh =>
          let s := s.setInfo to (fun i => { i with started := true })
          let s := if (s.info to).mode > 0 then
              { s with sp := (step s.sp .mark).1, guards := upd s.guards to (toString to :: s.guards to) } else s
          s.emit s!"B {to}{showVals vs}"
        | .yielded => s.emit s!"Y {to}{showVals vs}"
        | .pyielded => s.emit s!"P {to} t{showVals vs}"
        | .pyieldedG =>
          -- the yield returns, the function inside the pcall returns: its guard is closed, then pcall returns
          let (sp', evs') := step s.sp (.unmark none)
          let s := closeEvents { s with sp := sp' } evs'
          s.emit s!"P {to} t{showVals vs}"
        | .fyielded =>
          let (sp', evs') := step s.sp (.unmark none)
          let s := closeEvents { s with sp := sp' } evs'
          s.emit s!"Y {to}{showVals vs}"
        | .exhausted => s
      | .ok vs => s.emit s!"{tag} {k} t{showVals vs}"
      | .fail v => s.emit s!"{tag} {k} F {v}"
      | .exc => s
      | .illegal =>
        match closing with
        | some c => s.emit s!"C {c} illegal"
        | none => s.emit s!"{tag} {k} illegal"
      | .closed none => s.emit s!"C {closing.getD 0} ok"
      | .closed (some v) => s.emit s!"C {closing.getD 0} fail {v}") s
  |> fun s => let _ := me; s

def doStep (s : ScriptSt) (op : Op) (closing : Option Nat := none) : ScriptSt :=
  let me := s.sp.cur
  let (sp', evs) := step s.sp op
  handleEvents { s with sp := sp' } evs me closing

/-- unwind the whole resume chain (quota kill in the running coroutine) -/
def killChain : Nat → ScriptSt → ScriptSt
  | 0, s => s
  | fuel + 1, s =>
    let me := s.sp.cur
    if me == 0 then s else
      let (sp', _) := step s.sp .exc
      killChain fuel { s with sp := sp', killed := me :: s.killed }

/-- what the running thread observes before its next action: every thread's status, who runs, yieldability -/
def observe (s : ScriptSt) : ScriptSt :=
  if s.bad || s.outcome != "" then s else
  let me := s.sp.cur
  let st (k : Nat) : String :=
    if k == 0 then statusName (s.sp.status 0)
    else match (s.info k).kind with
      | .none => "-"
      | .wrap => if !(s.info k).started then "-" else statusName (s.sp.status k)
      | .create => statusName (s.sp.status k)
  s.emit s!"O {me} {st 0} {st 1} {st 2} {st 3} {me} {if me == 0 then "t" else "F"} {if s.sp.isYieldable then "t" else "F"}"

def exec (s : ScriptSt) (a : Action) : ScriptSt :=
  if s.bad || s.outcome != "" then s else
  let me := s.sp.cur
  match a with
  | .create k mode wrap =>
    if k != s.sp.n || k == 0 || k > 3 then { s with bad := true } else
    let s := doStep s .create
    s.setInfo k (fun _ => { kind := if wrap then .wrap else .create, mode := mode })
  | .resume k vs =>
    if (s.info k).kind == .none then { s with bad := true } else
    let s := s.setInfo me (fun i => { i with waitK := k, waitWrap := (s.info k).kind == .wrap })
    doStep s (.resume k vs)
  | .yield vs =>
    if me == 0 then s.emit "Y 0 illegal" else
    doStep (s.setInfo me (fun i => { i with pend := .yielded })) (.yield vs)
  | .pyield vs =>
    if me == 0 then s.emit "P 0 illegal" else
    doStep (s.setInfo me (fun i => { i with pend := .pyielded })) (.yield vs)
  | .pyieldG vs =>
    if me == 0 then s.emit "P 0 illegal" else
    doStep ((s.pushInner me).setInfo me (fun i => { i with pend := .pyieldedG })) (.yield vs)
  | .fyield vs =>
    if me == 0 then s.emit "Y 0 illegal" else
    doStep ((s.pushInner me).setInfo me (fun i => { i with pend := .fyielded })) (.yield vs)
  | .pgerr v =>
    -- pcall(function() local g <close> = …; error(v) end): the guard is closed with v, pcall returns false, v
    let s := doStep (s.pushInner me) (.unmark (some v))
    s.emit s!"PG {me} F {v}"
  | .ferr v => if me == 0 then s else doStep (s.pushInner me) (.err v)
  | .ret vs => if me == 0 then s else doStep s (.ret vs)
  | .err v => if me == 0 then s else doStep s (.err v)
  | .perr v => s.emit s!"PE {me} F {v}"
  | .close k =>
    if (s.info k).kind == .none then { s with bad := true } else
    if (s.info k).kind == .wrap && !(s.info k).started then s.emit s!"C {k} nohandle" else
    doStep s (.close k) (some k)
  | .status k =>
    if (s.info k).kind == .none then { s with bad := true } else
    if (s.info k).kind == .wrap && !(s.info k).started then s.emit s!"S {k} nohandle" else
    s.emit s!"S {k} {statusName (s.sp.status k)}"
  | .isYieldable => s.emit s!"I {me} {if s.sp.isYieldable then "t" else "F"}"
  | .spin => { killChain 8 s with outcome := "killed" }

/-- when the script is exhausted every coroutine on the resume chain yields (no values) -/
def unwind : Nat → ScriptSt → ScriptSt
  | 0, s => s
  | fuel + 1, s =>
    let me := s.sp.cur
    if me == 0 || s.outcome != "" || s.bad then s else
      unwind fuel (observe (doStep (s.setInfo me (fun i => { i with pend := .exhausted })) (.yield [])))

def finalStatus (s : ScriptSt) (k : Nat) : String :=
  match (s.info k).kind with
  | .none => "none"
  | .wrap => if !(s.info k).started then "nohandle" else statusName (s.sp.status k)
  | .create => statusName (s.sp.status k)

/-- the harness's cleanup: never-started wrap coroutines are started (they find the script exhausted and
    yield), then every suspended coroutine is closed, in order; only handler events are recorded -/
def cleanup (s : ScriptSt) : ScriptSt :=
  let s := { s with quiet := true, events := [], outcome := "" }
  let s := [1, 2, 3].foldl (fun s k =>
    if (s.info k).kind == .wrap && !(s.info k).started then
      let s := s.setInfo 0 (fun i => { i with waitK := k, waitWrap := true })
      let s := doStep s (.resume k [])
      if s.sp.cur == k then doStep (s.setInfo k (fun i => { i with pend := .exhausted })) (.yield []) else s
    else s) s
  [1, 2, 3].foldl (fun s k =>
    if (s.info k).kind != .none && s.sp.status k == .suspended then doStep s (.close k) (some k) else s) s

def runScript (acts : List Action) : String :=
  let s := acts.foldl (fun s a => exec (observe s) a) {}
  let s := unwind 8 (observe s)
  if s.bad then "bad-script" else
  let s := if s.outcome == "" then { s with outcome := "done" } else s
  let finals := [1, 2, 3].map (finalStatus s)
  let d1 := (finals.filter (fun f => f == "suspended" || f == "nohandle")).length
  let ev := " ; ".intercalate s.events.reverse
  let killed := String.join (s.killed.reverse.map (fun k => " " ++ toString k))
  let c := cleanup s
  let cev := " ; ".intercalate c.events.reverse
  s!"{ev} | F {" ".intercalate finals} | G {d1} 0 | {s.outcome} | X {cev} | K{killed}"

def parseVals (s : String) : Option (List Val) :=
  if s.isEmpty then some [] else
  (s.splitOn ",").mapM (fun x => x.toInt?)

def parseAction (tok : String) : Option Action :=
  let (head, vs?) := match tok.splitOn ":" with
    | [h] => (h, some [])
    | [h, v] => (h, parseVals v)
    | _ => (tok, none)
  match vs? with
  | none => none
  | some vs =>
    if head == "y" then some (.yield vs)
    else if head == "py" then some (.pyield vs)
    else if head == "pyt" then some (.pyieldG vs)
    else if head == "fy" then some (.fyield vs)
    else if head == "pge" then vs.head?.map .pgerr
    else if head == "fe" then vs.head?.map .ferr
    else if head == "ret" then some (.ret vs)
    else if head == "e" then vs.head?.map .err
    else if head == "pe" then vs.head?.map .perr
    else if head == "iy" then some .isYieldable
    else if head == "spin" then some .spin
    else
      let cs := head.toList
      match cs with
      | c :: d :: rest =>
        let k := d.toNat - '0'.toNat
        if k < 1 || k > 3 then none else
        let mode? : Option Nat := match rest with
          | [] => some 0
          | ['t'] => some 1
          | ['T'] => some 2
          | _ => none
        match c, mode? with
        | 'c', some m => some (.create k m false)
        | 'w', some m => some (.create k m true)
        | 'r', some 0 => some (.resume k vs)
        | 'x', some 0 => some (.close k)
        | 's', some 0 => some (.status k)
        | _, _ => none
      | _ => none

def processLine (line : String) : String :=
  let script := (line.splitOn "=>").headD ""
  let toks := (script.splitOn " ").filter (fun t => !t.isEmpty)
  match toks.mapM parseAction with
  | none => "bad-line"
  | some acts => runScript acts

def showViolation (v : GoluaVerif.Model.CoProto.Violation) : String :=
  s!"disc:{v.proc}:{v.ev}:{v.reason} path={v.path} idx={v.idx}"

def main (args : List String) : IO UInt32 := do
  match args with
  | ["disc"] =>
    for v in GoluaVerif.Model.CoProto.discViolations GoluaVerif.Generated.ThreadEvents.table do
      IO.println (showViolation v)
    for p in GoluaVerif.Generated.ThreadEvents.problems do
      IO.println s!"unclassified:{p}"
    return 0
  | _ =>
    let stdin ← IO.getStdin
    let stdout ← IO.getStdout
    Oracle.forEachLine stdin fun line => do
      stdout.putStrLn (processLine line)
    return 0

end Oracle.C09
