import Oracle.Proto
namespace Oracle.C09

/-- placeholder: the oracle driver for C09 is not built yet -/
def main (_args : List String) : IO UInt32 := do
  IO.eprintln "oracle mode c09: not built"
  return 2

end Oracle.C09
