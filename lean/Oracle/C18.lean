import Oracle.Proto
namespace Oracle.C18

/-- placeholder: the oracle driver for C18 is not built yet -/
def main (_args : List String) : IO UInt32 := do
  IO.eprintln "oracle mode c18: not built"
  return 2

end Oracle.C18
