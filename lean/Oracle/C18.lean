/-
  Oracle.C18 — runs the Lean models the C18 theorems are about on the histories the harness
  ran on the real code, and validates Lua-level logs against the spec relation.

    pool <op>* = <impl>     level B: Model.ClonePool.use on every op; prints per-op outputs,
                            the final abstract state (same rendering as VerifGCDump), the set of
                            objects carrying a Go finaliser, and whether SetFinalizer was called twice
    rt <op>* = <impl>       level B: Model.GcRuntime.rstep; prints the finalise/release log per op
    lua <token>* = <impl>   level A: the observed log must satisfy Spec.Gc (finOnce, relOnce,
                            noFinAfterRel, descending epochs at close / context end, exactly once
                            by close, killed contexts release without finalising); prints
                            `ok` or `bad <reason>:<id> ...`
-/
import Oracle.Proto
import GoluaVerif.Spec.Gc
import GoluaVerif.Model.ClonePool
import GoluaVerif.Model.GcRuntime
namespace Oracle.C18
open GoluaVerif.Spec.Gc GoluaVerif.Model.ClonePool GoluaVerif.Model

def natOfChars? (cs : List Char) : Option Nat :=
  if cs.isEmpty then none else
  cs.foldl (fun acc c => match acc with
    | some a => if '0' ≤ c ∧ c ≤ '9' then some (a * 10 + (c.toNat - '0'.toNat)) else none
    | none => none) (some 0)

def splitChars (sep : Char) (cs : List Char) : List (List Char) :=
  let rec go (cur : List Char) (acc : List (List Char)) : List Char → List (List Char)
    | [] => (cur.reverse :: acc).reverse
    | c :: t => if c == sep then go [] (cur.reverse :: acc) t else go (c :: cur) acc t
  go [] [] cs

/-- `o<k>.<id>` | `c<k>.<id>` -/
def parseObj (cs : List Char) : Option Obj :=
  match cs with
  | t :: rest =>
    if t != 'o' && t != 'c' then none else
    match splitChars '.' rest with
    | [a, b] => match natOfChars? a, natOfChars? b with
      | some k, some i => some { key := k, id := i, clone := t == 'c' }
      | _, _ => none
    | _ => none
  | [] => none

def showObj (o : Obj) : String := (if o.clone then "c" else "o") ++ toString o.key ++ "." ++ toString o.id

def showEntry (e : Entry) : String :=
  showObj e.val ++ "/" ++ toString e.order ++ "/" ++ (if e.fin then "f" else "-") ++ (if e.rel then "r" else "-")

def showList (l : List String) : String := "[" ++ ",".intercalate l ++ "]"

def dump (p : Pool) : String :=
  "L" ++ toString p.last ++ " R" ++ (match p.reg with
    | none => "nil"
    | some rg => showList (rg.map showEntry)) ++
  " PF" ++ showList (p.pf.map showEntry) ++ " PR" ++ showList (p.pr.map showEntry)

def insertStr (s : String) : List String → List String
  | [] => [s]
  | x :: t => if s < x then s :: x :: t else x :: insertStr s t
def sortStr (l : List String) : List String := l.foldr insertStr []

def evObj : TEv → Option Obj
  | .fin _ v _ => some v
  | .rel _ v _ => some v
  | _ => none

def finObj : TEv → Option Obj
  | .fin _ v _ => some v
  | _ => none
def relObj : TEv → Option Obj
  | .rel _ v _ => some v
  | _ => none

/-- `[a,b]` → objects -/
def parseObjList (s : String) : Option (List Obj) :=
  let cs := s.toList
  match cs with
  | '[' :: rest =>
    match rest.reverse with
    | ']' :: mid =>
      let inner := mid.reverse
      if inner.isEmpty then some [] else (splitChars ',' inner).mapM parseObj
    | _ => none
  | _ => none

/-- the implementation's outputs (text after `=` up to the first `;`) -/
def implOuts (toks : List String) : List String :=
  ((toks.dropWhile (fun s => s != "=")).drop 1).takeWhile (fun s => s != ";")

/-! ### pool mode -/

inductive POp where
  | use (u : Use)
  | drop
  | bad

def parsePOp (tok : String) : POp :=
  match tok with
  | "PF" => .use .xPF
  | "PR" => .use .xPR
  | "AF" => .use .xAF
  | "AR" => .use .xAR
  | "ST" => .use .step
  | "FA" => .use .finAll
  | "PO" => .use .popRel
  | _ =>
    match splitChars ':' tok.toList with
    | [h, o] =>
      match parseObj o with
      | none => .bad
      | some ob =>
        match h with
        | ['f'] => .use (.fire ob)
        | ['d'] => .drop
        | ['m', d] =>
          let n := d.toNat - '0'.toNat
          if n > 3 then .bad else .use (.mark ob (n % 2 == 1) (n / 2 == 1))
        | _ => .bad
    | _ => .bad

def poolLine (toks : List String) : String := Id.run do
  let mut p : Pool := {}
  let mut outs : Array String := #[]
  for tok in toks do
    match parsePOp tok with
    | .bad => return "bad-line"
    | .drop => outs := outs.push (if p.fatal then "X" else "-")
    | .use u =>
      if p.fatal then
        outs := outs.push "X"
      else
        let p' := use p u
        let d := p'.tr.drop p.tr.length
        let o := match u with
          | .mark _ _ _ => if p'.panics > p.panics then "panic" else "ok"
          | .fire ob => if p.goReg.contains ob then "1" else "0"
          | .step => showList (d.filterMap finObj |>.map showObj) ++ "+" ++ showList (d.filterMap relObj |>.map showObj)
          | _ => showList (d.filterMap evObj |>.map showObj)
        outs := outs.push o
        p := p'
  return " ".intercalate outs.toList ++ " ; " ++ dump p ++ " ; reg=" ++ showList (sortStr (p.goReg.map showObj))
    ++ " ; ds=" ++ (if p.fatal then "1" else "0")

/-- level A on the IMPLEMENTATION's pool outputs: every extraction is in strictly descending
    markOrder, no marking epoch is handed out twice for finalisation, nor twice for release.
    (The clone handed out for epoch n has id n.) -/
def poolA (ops outs : List String) : String := Id.run do
  let mut tr : Array TEv := #[]
  let mut bad : Array String := #[]
  for (op, out) in ops.zip outs do
    let lists : List (Bool × String) :=
      if op == "ST" then
        match out.splitOn "+" with
        | [a, b] => [(true, a), (false, b)]
        | _ => []
      else if op == "PF" || op == "AF" || op == "FA" then [(true, out)]
      else if op == "PR" || op == "AR" || op == "PO" then [(false, out)]
      else []
    for (isFin, l) in lists do
      match parseObjList l with
      | none => if l != "X" then bad := bad.push "unparsable"
      | some os =>
        if !descB (os.map (·.id)) then bad := bad.push ("order:" ++ op)
        for o in os do
          tr := tr.push (if isFin then .fin .pf o o.id else .rel .pr o o.id)
  if !finOnce tr.toList then bad := bad.push "finalized-twice"
  if !relOnce tr.toList then bad := bad.push "released-twice"
  return if bad.isEmpty then "ok" else ",".intercalate bad.toList

/-! ### level A: validate an observed log against Spec.Gc

  tokens:  M:<id>:<flags>  G:<id>  R:<id>  B (isolating CallContext begins)  P (PushContext)
           Q (body of the innermost CallContext is over)  E:<status>  C / Z (Close begins / returned)
  The epoch of a `G`/`R` is the last marking of that value before it. -/

structure LuaSt where
  tr : Array TEv := #[]
  seq : Nat := 0
  nextPool : Nat := 1
  /-- open isolating contexts, innermost first: pool id, is it a CallContext, trace position of `Q` -/
  ctxs : List (Nat × Bool × Option Nat) := []
  /-- epoch ↦ (value id, pool id, wants finalise, wants release) -/
  epochs : Array (Nat × Nat × Nat × Bool × Bool) := #[]
  closing : Option Nat := none
  dead : List Nat := []       -- epochs whose pool is gone: nothing may be finalised or released any more
  bad : Array String := #[]

def LuaSt.curPool (st : LuaSt) : Nat := match st.ctxs with | (p, _, _) :: _ => p | [] => 0

def luaLine (toks : List String) : String := Id.run do
  let mut st : LuaSt := {}
  for tok in toks do
    let parts := splitChars ':' tok.toList
    match parts with
    | [['M'], a, d] =>
      match natOfChars? a, natOfChars? d with
      | some k, some n =>
        let ep := st.seq + 1
        st := { st with seq := ep, tr := st.tr.push (.mark k ep (n % 2 == 1) (n / 2 == 1)),
                        epochs := st.epochs.push (ep, k, st.curPool, n % 2 == 1, n / 2 == 1) }
      | _, _ => return "bad-line"
    | [['G'], a] =>
      match natOfChars? a with
      | some k =>
        match currentEpoch k st.tr.toList with
        | none => st := { st with bad := st.bad.push ("fin-unmarked:" ++ toString k) }
        | some ep =>
          if st.dead.contains ep then st := { st with bad := st.bad.push ("fin-after-context-end:" ++ toString k) }
          let atEnd := st.closing.isSome || (match st.ctxs with | (_, _, some _) :: _ => true | _ => false)
          st := { st with tr := st.tr.push (.fin (if atEnd then .af else .pf) { key := k, id := 0, clone := true } ep) }
      | none => return "bad-line"
    | [['R'], a] =>
      match natOfChars? a with
      | some k =>
        match currentEpoch k st.tr.toList with
        | none => st := { st with bad := st.bad.push ("rel-unmarked:" ++ toString k) }
        | some ep =>
          if st.dead.contains ep then st := { st with bad := st.bad.push ("rel-after-context-end:" ++ toString k) }
          st := { st with tr := st.tr.push (.rel .pr { key := k, id := 0, clone := true } ep) }
      | none => return "bad-line"
    | [['B']] => st := { st with ctxs := (st.nextPool, true, none) :: st.ctxs, nextPool := st.nextPool + 1 }
    | [['P']] => st := { st with ctxs := (st.nextPool, false, none) :: st.ctxs, nextPool := st.nextPool + 1 }
    | [['Q']] =>
      match st.ctxs with
      | (p, true, _) :: rest => st := { st with ctxs := (p, true, some st.tr.size) :: rest }
      | _ => return "bad-line"
    | [['E'], status] =>
      match st.ctxs with
      | (pool, true, be) :: rest =>
        let tr := st.tr.toList
        let killed := String.ofList status == "killed"
        let mine := st.epochs.toList.filter (fun x => x.2.2.1 == pool)
        for (ep, k, _, f, r) in mine do
          -- only the epochs that are still the current marking of their value are owed anything
          if currentEpoch k tr == some ep then
            if r && !(relOrders tr).contains ep then st := { st with bad := st.bad.push ("not-released-by-context-end:" ++ toString k) }
            if f && !killed && !(finOrders tr).contains ep then
              st := { st with bad := st.bad.push ("not-finalized-by-context-end:" ++ toString k) }
        if killed then
          -- nothing marked in a killed context may be finalised from the kill on; the kill is not
          -- observable, but a finaliser running at the context's end (after `Q`) would be
          match be with
          | some pos => if !(closeFinOrders (tr.drop pos)).isEmpty then st := { st with bad := st.bad.push "finalized-in-killed-context:0" }
          | none => pure ()
        else
          match be with
          | some pos =>
            if !descB (closeFinOrders (tr.drop pos)) then st := { st with bad := st.bad.push "context-end-order:0" }
          | none => pure ()
        st := { st with ctxs := rest, dead := mine.map (·.1) ++ st.dead }
      | _ => return "bad-line"
    | [['C']] => st := { st with closing := some st.tr.size }
    | [['Z']] =>
      let tr := st.tr.toList
      match st.closing with
      | none => return "bad-line"
      | some pos =>
        -- reverse order of marking, pool by pool
        for pool in (List.range st.nextPool) do
          let mine := (st.epochs.toList.filter (fun x => x.2.2.1 == pool)).map (·.1)
          if !descB ((closeFinOrders (tr.drop pos)).filter (fun n => mine.contains n)) then
            st := { st with bad := st.bad.push "close-order:0" }
        for (ep, k, _, f, r) in st.epochs.toList do
          if currentEpoch k tr == some ep && !st.dead.contains ep then
            if f && !(finOrders tr).contains ep then st := { st with bad := st.bad.push ("not-finalized-by-close:" ++ toString k) }
            if r && !(relOrders tr).contains ep then st := { st with bad := st.bad.push ("not-released-by-close:" ++ toString k) }
        st := { st with dead := st.epochs.toList.map (·.1) }
    | _ => return "bad-line"
  let tr := st.tr.toList
  if !finOnce tr then st := { st with bad := st.bad.push "finalized-twice:0" }
  if !relOnce tr then st := { st with bad := st.bad.push "released-twice:0" }
  if !noFinAfterRel tr then st := { st with bad := st.bad.push "finalized-after-release:0" }
  if st.bad.isEmpty then return "ok" else return "bad " ++ " ".intercalate st.bad.toList

/-! ### runtime mode -/

def showLog (d : List TEv) : String :=
  let l := d.filterMap fun e => match e with
    | .fin _ v _ => some ("f" ++ toString v.key)
    | .rel _ v _ => some ("r" ++ toString v.key)
    | _ => none
  if l.isEmpty then "-" else ",".intercalate l

/-- `<k>o` = the original of value k, `<k>c` = the clone of k most recently handed to a finaliser -/
def resolve (s : GcRuntime.Rt) (cs : List Char) : Option Obj :=
  match cs.reverse with
  | t :: rk =>
    match natOfChars? rk.reverse with
    | none => none
    | some k =>
      if t == 'o' then some { key := k, id := 0, clone := false }
      else if t == 'c' then
        match s.log.reverse.find? (fun e => match e with | .fin _ v _ => v.key == k | _ => false) with
        | some (.fin _ v _) => some v
        | _ => none
      else none
  | [] => none

/-- observed `f3,r3` → level-A tokens -/
def obsTokens (out : String) : List String :=
  if out == "-" || out == "panic" || out == "0" || out == "1" || out == "X" || out == "n" then [] else
  (out.splitOn ",").map fun s =>
    match s.toList with
    | 'f' :: r => "G:" ++ String.ofList r
    | 'r' :: r => "R:" ++ String.ofList r
    | _ => "?"

def rtLine (toks : List String) (impl : List String) : String := Id.run do
  let mut s : GcRuntime.Rt := {}
  let mut ctx : List Bool := []   -- open CallContexts: isolating?
  let mut outs : Array String := #[]
  let mut atoks : Array String := #[]   -- level-A tokens built from the IMPLEMENTATION's outputs
  let mut implLeft := impl
  -- the environment assumption, checked on the history: names (`3o`, `3c`) the program still references;
  -- a Go finaliser may only fire for a dropped object, and only referenced objects can be re-marked
  let mut refs : List String := []
  let mut disciplined := true
  let mut reachable : Array String := #[]
  -- values of which a clone was handed out by a close-time finalisation while they were still referenced
  let mut tainted : List String := []
  for tok in toks do
    let obs := obsTokens (implLeft.head?.getD "-")
    let implOut := implLeft.head?.getD "-"
    implLeft := implLeft.drop 1
    if s.fatal then
      outs := outs.push "X"
      continue
    let before := s.log.length
    let panicsBefore := (s.pools.map (·.panics)).foldl (· + ·) 0
    let mut fireOut : Option String := none
    let mut ok := true
    match tok with
    | "st" =>
      s := GcRuntime.rstep s (.prim .step); atoks := atoks ++ obs
      -- level A, never finalised while reachable: a pending finalisation observed on the implementation
      for t in obs do
        match t.toList with
        | 'G' :: ':' :: r =>
          let k := String.ofList r
          if refs.contains (k ++ "o") || refs.contains (k ++ "c") then
            reachable := reachable.push ((if tainted.contains k then "finalized-while-reachable-through-the-original-after-close-time-finalisation:"
              else "finalized-while-reachable:") ++ k)
        | _ => pure ()
    | "pu" => s := GcRuntime.rstep s (.prim .push); atoks := atoks.push "P"
    | "cc" => s := GcRuntime.rstep s (.prim .push); ctx := true :: ctx; atoks := atoks.push "B"
    | "cs" => ctx := false :: ctx
    | "ps" => pure ()
    | "cl" => s := GcRuntime.rstep s .close; atoks := (atoks.push "C") ++ obs |>.push "Z"
    | "ed" | "ee" | "ek" =>
      match ctx with
      | [] => ok := false
      | iso :: rest =>
        ctx := rest
        if iso then
          s := GcRuntime.rstep s (if tok == "ek" then .callKilled else .callDone)
          atoks := (atoks.push "Q") ++ obs |>.push (if tok == "ek" then "E:killed" else if tok == "ee" then "E:error" else "E:done")
        else atoks := atoks ++ obs
    | _ =>
      match splitChars ':' tok.toList with
      | [h, a] =>
        match h with
        | ['m', 'k', d] =>
          match natOfChars? a with
          | some k =>
            let n := d.toNat - '0'.toNat
            s := GcRuntime.rstep s (.prim (.mark { key := k, id := 0, clone := false } (n % 2 == 1) (n / 2 == 1)))
            refs := (toString k ++ "o") :: refs
            if implOut != "panic" && implOut != "X" then atoks := atoks.push ("M:" ++ toString k ++ ":" ++ toString n)
          | none => ok := false
        | ['r', 'm', d] =>
          match resolve s a with
          | some ob =>
            let n := d.toNat - '0'.toNat
            s := GcRuntime.rstep s (.prim (.mark ob (n % 2 == 1) (n / 2 == 1)))
          | none => fireOut := some "n"
          -- level A goes by what the implementation says it did, not by the model
          if implOut != "n" then
            if !refs.contains (String.ofList a) then disciplined := false
            if implOut != "panic" && implOut != "X" then
              atoks := atoks.push ("M:" ++ String.ofList (a.take (a.length - 1)) ++ ":" ++ String.singleton d)
        | ['f', 'i'] =>
          match resolve s a with
          | some ob =>
            fireOut := some (if s.pools.any (fun p => p.goReg.contains ob) then "1" else "0")
            s := GcRuntime.rstep s (.prim (.fire ob))
          | none => fireOut := some "n"
          if implOut != "n" && refs.contains (String.ofList a) then disciplined := false
        | ['d', 'r'] => refs := refs.filter (fun x => x != String.ofList a)
        | _ => ok := false
      | _ => ok := false
    if !ok then return "bad-line"
    let d := showLog (s.log.drop before)
    if tok == "cl" || tok == "ed" || tok == "ee" then
      for t in obs do
        match t.toList with
        | 'G' :: ':' :: r => if refs.contains (String.ofList r ++ "o") || refs.contains (String.ofList r ++ "c") then tainted := String.ofList r :: tainted
        | _ => pure ()
    -- every value the implementation handed to a finaliser is referenced (the harness keeps the clone) until dropped
    for t in obs do
      match t.toList with
      | 'G' :: ':' :: r => refs := (String.ofList r ++ "c") :: refs.filter (fun x => x != String.ofList r ++ "c")
      | _ => pure ()
    let panicked := (s.pools.map (·.panics)).foldl (· + ·) 0 > panicsBefore
    outs := outs.push (if s.fatal then "X" else if panicked then "panic" else match fireOut with | some f => f | none => d)
  -- a history that dies in runtime.SetFinalizer or uses the runtime after Close is not judged further
  let usedAfterClose := impl.contains "panic"
  let verdict :=
    if s.fatal then "fatal" else if usedAfterClose then "ok" else if !disciplined then "undisciplined"
    else
      let v := luaLine atoks.toList
      if reachable.isEmpty then v
      else (if v == "ok" then "bad" else v) ++ " " ++ " ".intercalate reachable.toList
  return " ".intercalate outs.toList ++ " ; ds=" ++ (if s.fatal then "1" else "0") ++ " ; A=" ++ verdict


def handle (line : String) : String :=
  let toks := (line.splitOn " ").filter (fun s => !s.isEmpty)
  let body := toks.takeWhile (fun s => s != "=")
  match body with
  | "pool" :: ops => poolLine ops ++ " ; A=" ++ poolA ops (implOuts toks)
  | "rt" :: ops => rtLine ops (implOuts toks)
  | "lua" :: ops => luaLine ops
  | _ => "bad-line"

def main (_args : List String) : IO UInt32 := do
  let stdin ← IO.getStdin
  let stdout ← IO.getStdout
  forEachLine stdin fun line => stdout.putStrLn (handle line)
  return 0

end Oracle.C18
