/-
  Oracle.C18 — runs the Lean models the C18 theorems are about on the histories the harness
  ran on the real code, and validates Lua-level logs against the spec relation.

    pool <op>* = <impl>     level B: Model.ClonePool.use on every op; prints per-op outputs,
                            the final abstract state (same rendering as VerifGCDump), the set of
                            objects carrying a Go finaliser, and whether SetFinalizer was called twice
    rt <op>* = <impl>       level B: Model.GcRuntime.rstep; prints the finalise/release log per op
    lua <token>* = <impl>   level A: the observed log must satisfy Spec.Gc (finOnce, relOnce,
                            noFinAfterRel, descending epochs at close / context end, exactly once
                            by close, killed contexts release without finalising); prints
                            `ok` or `bad <reason>:<id> ...`
-/
import Oracle.Proto
import GoluaVerif.Spec.Gc
import GoluaVerif.Model.ClonePool
import GoluaVerif.Model.GcRuntime
namespace Oracle.C18
open GoluaVerif.Spec.Gc GoluaVerif.Model.ClonePool GoluaVerif.Model

def natOfChars? (cs : List Char) : Option Nat :=
  if cs.isEmpty then none else
  cs.foldl (fun acc c => match acc with
    | some a => if '0' ≤ c ∧ c ≤ '9' then some (a * 10 + (c.toNat - '0'.toNat)) else none
    | none => none) (some 0)

def splitChars (sep : Char) (cs : List Char) : List (List Char) :=
  let rec go (cur : List Char) (acc : List (List Char)) : List Char → List (List Char)
    | [] => (cur.reverse :: acc).reverse
    | c :: t => if c == sep then go [] (cur.reverse :: acc) t else go (c :: cur) acc t
  go [] [] cs

/-- `o<k>.<id>` | `c<k>.<id>` -/
def parseObj (cs : List Char) : Option Obj :=
  match cs with
  | t :: rest =>
    if t != 'o' && t != 'c' then none else
    match splitChars '.' rest with
    | [a, b] => match natOfChars? a, natOfChars? b with
      | some k, some i => some { key := k, id := i, clone := t == 'c' }
      | _, _ => none
    | _ => none
  | [] => none

def showObj (o : Obj) : String := (if o.clone then "c" else "o") ++ toString o.key ++ "." ++ toString o.id

def showEntry (e : Entry) : String :=
  showObj e.val ++ "/" ++ toString e.order ++ "/" ++ (if e.fin then "f" else "-") ++ (if e.rel then "r" else "-")

def showList (l : List String) : String := "[" ++ ",".intercalate l ++ "]"

def dump (p : Pool) : String :=
  "L" ++ toString p.last ++ " R" ++ (match p.reg with
    | none => "nil"
    | some rg => showList (rg.map showEntry)) ++
  " PF" ++ showList (p.pf.map showEntry) ++ " PR" ++ showList (p.pr.map showEntry)

def insertStr (s : String) : List String → List String
  | [] => [s]
  | x :: t => if s < x then s :: x :: t else x :: insertStr s t
def sortStr (l : List String) : List String := l.foldr insertStr []

def evObj : TEv → Option Obj
  | .fin _ v _ => some v
  | .rel _ v _ => some v
  | _ => none

def finObj : TEv → Option Obj
  | .fin _ v _ => some v
  | _ => none
def relObj : TEv → Option Obj
  | .rel _ v _ => some v
  | _ => none

/-- `[a,b]` → objects -/
def parseObjList (s : String) : Option (List Obj) :=
  let cs := s.toList
  match cs with
  | '[' :: rest =>
    match rest.reverse with
    | ']' :: mid =>
      let inner := mid.reverse
      if inner.isEmpty then some [] else (splitChars ',' inner).mapM parseObj
    | _ => none
  | _ => none

/-- the implementation's outputs (text after `=` up to the first `;`) -/
def implOuts (toks : List String) : List String :=
  ((toks.dropWhile (fun s => s != "=")).drop 1).takeWhile (fun s => s != ";")

/-! ### pool mode -/

inductive POp where
  | use (u : Use)
  | drop
  | bad

def parsePOp (tok : String) : POp :=
  match tok with
  | "PF" => .use .xPF
  | "PR" => .use .xPR
  | "AF" => .use .xAF
  | "AR" => .use .xAR
  | "ST" => .use .step
  | "FA" => .use .finAll
  | "PO" => .use .popRel
  | _ =>
    match splitChars ':' tok.toList with
    | [h, o] =>
      match parseObj o with
      | none => .bad
      | some ob =>
        match h with
        | ['f'] => .use (.fire ob)
        | ['d'] => .drop
        | ['m', d] =>
          let n := d.toNat - '0'.toNat
          if n > 3 then .bad else .use (.mark ob (n % 2 == 1) (n / 2 == 1))
        | _ => .bad
    | _ => .bad

def poolLine (toks : List String) : String := Id.run do
  let mut p : Pool := {}
  let mut outs : Array String := #[]
  for tok in toks do
    match parsePOp tok with
    | .bad => return "bad-line"
    | .drop => outs := outs.push (if p.fatal then "X" else "-")
    | .use u =>
      if p.fatal then
        outs := outs.push "X"
      else
        let p' := use p u
        let d := p'.tr.drop p.tr.length
        let o := match u with
          | .mark _ _ _ => if p'.panics > p.panics then "panic" else "ok"
          | .fire ob => if p.goReg.contains ob then "1" else "0"
          | .step => showList (d.filterMap finObj |>.map showObj) ++ "+" ++ showList (d.filterMap relObj |>.map showObj)
          | _ => showList (d.filterMap evObj |>.map showObj)
        outs := outs.push o
        p := p'
  return " ".intercalate outs.toList ++ " ; " ++ dump p ++ " ; reg=" ++ showList (sortStr (p.goReg.map showObj))
    ++ " ; ds=" ++ (if p.fatal then "1" else "0")

/-- level A on the IMPLEMENTATION's pool outputs: every extraction is in strictly descending
    markOrder, no marking epoch is handed out twice for finalisation, nor twice for release.
    (The clone handed out for epoch n has id n.) -/
def poolA (ops outs : List String) : String := Id.run do
  let mut tr : Array TEv := #[]
  let mut bad : Array String := #[]
  for (op, out) in ops.zip outs do
    let lists : List (Bool × String) :=
      if op == "ST" then
        match out.splitOn "+" with
        | [a, b] => [(true, a), (false, b)]
        | _ => []
      else if op == "PF" || op == "AF" || op == "FA" then [(true, out)]
      else if op == "PR" || op == "AR" || op == "PO" then [(false, out)]
      else []
    for (isFin, l) in lists do
      match parseObjList l with
      | none => if l != "X" then bad := bad.push "unparsable"
      | some os =>
        if !descB (os.map (·.id)) then bad := bad.push ("order:" ++ op)
        for o in os do
          tr := tr.push (if isFin then .fin .pf o o.id else .rel .pr o o.id)
  if !finOnce tr.toList then bad := bad.push "finalized-twice"
  if !relOnce tr.toList then bad := bad.push "released-twice"
  return if bad.isEmpty then "ok" else ",".intercalate bad.toList

/-! ### level A: validate an observed log against Spec.Gc

  tokens:  M:<id>:<flags>            value marked (flags: 1 = finalise, 2 = release, 3 = both) in the current pool
           G:<id>[@<depth>]          `__gc` of value id ran [while <depth> contexts were open]
           R:<id>[@<depth>]          resources of value id released
           B:<t> / S:<t>             CallContext begins, with / without its own pool (per the SPEC's `isolates`);
                                     t = 1 iff CPU is accounted inside it
           P / p                     PushContext, with / without its own pool
           Q                         the body of the innermost CallContext is over
           E:<status> / e            the innermost CallContext (with / without its own pool) returned
           U:<n>                     CPU charged to the context that just ended, in finaliser units
           N:<note>                  scenario note (`gc-refused` / `gc-escaped` / `file-exists`)
           C / Z                     Close begins / returned
  The epoch of a `G`/`R` is the last marking of that value before it.  A value belongs to the pool of the
  innermost context that has its own pool at marking time: it must be finalised/released INSIDE that
  context (depth ≥ the context's depth) and BY its end. -/

/-- descending, equal neighbours allowed (a repeated epoch is reported as `finalized-twice`, not as an order violation) -/
def descOrEqB : List Nat → Bool
  | [] => true
  | [_] => true
  | x :: y :: t => decide (y ≤ x) && descOrEqB (y :: t)

/-- the epochs that occur more than once -/
def dupsOf (l : List Nat) : List Nat := (l.filter (fun x => l.count x > 1)).eraseDups

structure Frame where
  pool : Option Nat      -- its own pool, if it isolates
  isCall : Bool
  bodyEnd : Option Nat   -- trace position of `Q`
  tracked : Bool
  finsAtBegin : Nat

structure LuaSt where
  tr : Array TEv := #[]
  seq : Nat := 0
  nextPool : Nat := 1
  frames : List Frame := []
  /-- pool id ↦ depth of the context that owns it -/
  poolDepth : Array Nat := #[0]
  /-- epoch ↦ (value id, pool id, wants finalise, wants release) -/
  epochs : Array (Nat × Nat × Nat × Bool × Bool) := #[]
  closing : Option Nat := none
  dead : List Nat := []       -- epochs whose pool is gone: nothing may be finalised or released any more
  fins : Nat := 0
  lastEnded : Option (Bool × Nat) := none   -- (CPU tracked?, finalisers run inside) of the context that just ended
  bad : Array String := #[]

def LuaSt.curPool (st : LuaSt) : Nat :=
  match st.frames.find? (fun f => f.pool.isSome) with
  | some f => f.pool.getD 0
  | none => 0

def LuaSt.poolOfEpoch (st : LuaSt) (ep : Nat) : Nat :=
  match st.epochs.toList.find? (fun x => x.1 == ep) with
  | some x => x.2.2.1
  | none => 0

/-- `3` or `3@1` -/
def parseIdAt (cs : List Char) : Option (Nat × Option Nat) :=
  match splitChars '@' cs with
  | [a] => (natOfChars? a).map (fun k => (k, none))
  | [a, d] => match natOfChars? a, natOfChars? d with
    | some k, some n => some (k, some n)
    | _, _ => none
  | _ => none

def luaLine (toks : List String) : String := Id.run do
  let mut st : LuaSt := {}
  for tok in toks do
    let parts := splitChars ':' tok.toList
    if tok != "U" && !(tok.startsWith "U:") then st := { st with lastEnded := none }
    match parts with
    | [['M'], a, d] | [['M'], a, d, _] =>
      -- optional 4th field i: the value is already looked after by the i-th enclosing pool-owning context
      -- (0 = the current one): "a value belongs to the context in which it was first marked"
      let skip := match parts with | [_, _, _, i] => (natOfChars? i).getD 0 | _ => 0
      match natOfChars? a, natOfChars? d with
      | some k, some n =>
        let ep := st.seq + 1
        let owners := (st.frames.filterMap (fun f => f.pool)) ++ [0]
        let pool := owners.getD skip 0
        st := { st with seq := ep, tr := st.tr.push (.mark k ep (n % 2 == 1) (n / 2 == 1)),
                        epochs := st.epochs.push (ep, k, pool, n % 2 == 1, n / 2 == 1) }
      | _, _ => return "bad-line"
    | [['G'], a] =>
      match parseIdAt a with
      | some (k, depth) =>
        st := { st with fins := st.fins + 1 }
        match currentEpoch k st.tr.toList with
        | none => st := { st with bad := st.bad.push ("fin-unmarked:" ++ toString k) }
        | some ep =>
          if st.dead.contains ep then st := { st with bad := st.bad.push ("fin-after-context-end:" ++ toString k) }
          match depth with
          | some d =>
            if d < st.poolDepth[st.poolOfEpoch ep]! then
              st := { st with bad := st.bad.push ("finalized-outside-its-context:" ++ toString k) }
          | none => pure ()
          let atEnd := st.closing.isSome || (match st.frames with | f :: _ => f.bodyEnd.isSome | [] => false)
          st := { st with tr := st.tr.push (.fin (if atEnd then .af else .pf) { key := k, id := 0, clone := true } ep) }
      | none => return "bad-line"
    | [['R'], a] =>
      match parseIdAt a with
      | some (k, depth) =>
        match currentEpoch k st.tr.toList with
        | none => st := { st with bad := st.bad.push ("rel-unmarked:" ++ toString k) }
        | some ep =>
          if st.dead.contains ep then st := { st with bad := st.bad.push ("rel-after-context-end:" ++ toString k) }
          match depth with
          | some d =>
            if d < st.poolDepth[st.poolOfEpoch ep]! then
              st := { st with bad := st.bad.push ("released-outside-its-context:" ++ toString k) }
          | none => pure ()
          st := { st with tr := st.tr.push (.rel .pr { key := k, id := 0, clone := true } ep) }
      | none => return "bad-line"
    | [['B'], t] | [['P'], t] =>
      let isCall := tok.startsWith "B"
      st := { st with frames := { pool := some st.nextPool, isCall := isCall, bodyEnd := none, tracked := t == ['1'],
                                  finsAtBegin := st.fins } :: st.frames,
                      poolDepth := st.poolDepth.push (st.frames.length + 1), nextPool := st.nextPool + 1 }
    | [['S'], t] | [['p'], t] =>
      let isCall := tok.startsWith "S"
      st := { st with frames := { pool := none, isCall := isCall, bodyEnd := none, tracked := t == ['1'],
                                  finsAtBegin := st.fins } :: st.frames }
    | [['Q']] =>
      match st.frames with
      | f :: rest => if f.isCall then st := { st with frames := { f with bodyEnd := some st.tr.size } :: rest } else return "bad-line"
      | _ => return "bad-line"
    | [['e']] =>
      match st.frames with
      | f :: rest =>
        if f.pool.isSome || !f.isCall then return "bad-line"
        st := { st with frames := rest, lastEnded := some (f.tracked, st.fins - f.finsAtBegin) }
      | _ => return "bad-line"
    | [['E'], status] =>
      match st.frames with
      | f :: rest =>
        match f.pool with
        | none => return "bad-line"
        | some pool =>
        let be := f.bodyEnd
        let tr := st.tr.toList
        let killed := String.ofList status == "killed"
        let mine := st.epochs.toList.filter (fun x => x.2.2.1 == pool)
        for (ep, k, _, fl, r) in mine do
          -- only the epochs that are still the current marking of their value are owed anything
          if currentEpoch k tr == some ep then
            if r && !(relOrders tr).contains ep then st := { st with bad := st.bad.push ("not-released-by-context-end:" ++ toString k) }
            if fl && !killed && !(finOrders tr).contains ep then
              st := { st with bad := st.bad.push ("not-finalized-by-context-end:" ++ toString k) }
        if killed then
          -- nothing marked in a killed context may be finalised from the kill on; the kill is not
          -- observable, but a finaliser running at the context's end (after `Q`) would be
          match be with
          | some pos => if !(closeFinOrders (tr.drop pos)).isEmpty then st := { st with bad := st.bad.push "finalized-in-killed-context:0" }
          | none => pure ()
        else
          match be with
          | some pos =>
            if !descOrEqB (closeFinOrders (tr.drop pos)) then st := { st with bad := st.bad.push "context-end-order:0" }
          | none => pure ()
        st := { st with frames := rest, dead := mine.map (·.1) ++ st.dead,
                        lastEnded := some (f.tracked, st.fins - f.finsAtBegin) }
      | _ => return "bad-line"
    | [['U'], n] =>
      match st.lastEnded, natOfChars? n with
      | some (tracked, inside), some got =>
        -- finalisers of a context that accounts for CPU are charged to it
        if tracked && got != inside then st := { st with bad := st.bad.push ("finalizers-not-charged-to-their-context:" ++ toString got) }
      | _, _ => return "bad-line"
    | [['N'], note] =>
      -- a note of the scenario: a finaliser set inside a context that requires compliance flags found itself
      -- unrestricted (`gc-escaped`), or its forbidden effect is there afterwards (`file-exists`)
      let n := String.ofList note
      if n == "gc-escaped" || n == "file-exists" then
        st := { st with bad := st.bad.push ("restricted-finaliser-ran-unrestricted:0") }
    | [['C']] => st := { st with closing := some st.tr.size }
    | [['Z']] =>
      let tr := st.tr.toList
      match st.closing with
      | none => return "bad-line"
      | some pos =>
        -- reverse order of marking, pool by pool
        for pool in (List.range st.nextPool) do
          let mine := (st.epochs.toList.filter (fun x => x.2.2.1 == pool)).map (·.1)
          if !descOrEqB ((closeFinOrders (tr.drop pos)).filter (fun n => mine.contains n)) then
            st := { st with bad := st.bad.push "close-order:0" }
        for (ep, k, _, f, r) in st.epochs.toList do
          if currentEpoch k tr == some ep && !st.dead.contains ep then
            if f && !(finOrders tr).contains ep then st := { st with bad := st.bad.push ("not-finalized-by-close:" ++ toString k) }
            if r && !(relOrders tr).contains ep then st := { st with bad := st.bad.push ("not-released-by-close:" ++ toString k) }
        st := { st with dead := st.epochs.toList.map (·.1), frames := [] }
    | _ => return "bad-line"
  let tr := st.tr.toList
  if !finOnce tr then
    for ep in dupsOf (finOrders tr) do
      let k := match st.epochs.toList.find? (fun x => x.1 == ep) with | some x => x.2.1 | none => 0
      st := { st with bad := st.bad.push ("finalized-twice:" ++ toString k) }
  if !relOnce tr then st := { st with bad := st.bad.push "released-twice:0" }
  if !noFinAfterRel tr then st := { st with bad := st.bad.push "finalized-after-release:0" }
  if st.bad.isEmpty then return "ok" else return "bad " ++ " ".intercalate st.bad.toList

/-! ### runtime mode

  ops:  mkT<m>:<k>      new table k with metatable kind m (1 = no __gc, 2 = __gc, 3 = __gc that raises)
        mkU<r><m>:<k>   new userdata k, releasable r ∈ {0,1}, metatable kind m ∈ {0 = none, 1, 2, 3}
        rm<m>:<k>o|c    SetRawMetatable(original / last clone of k, metatable kind m ∈ {1,2,3})
        dr:<k>o|c  fi:<k>o|c  st
        cc.<lims>.<pol>[.<flags>]  CallContext with hard limits lims ⊆ "cmt" (cpu, memory, millis), GC policy d|s|i and
                         required compliance flags ⊆ "cimt" (cpusafe, iosafe, memsafe, timesafe);  ed | ee | ek
        pu.<lims>.<pol>[.<flags>]  PushContext;  cl  Close
  outputs: `f3@1` / `r3@1` (value 3 finalised / released while 1 context was open), `!` = that finaliser
  raised, `|w<n>` = n `error in finalizer` warnings, `~<n>` = CPU charged to the ending context. -/

def parseCtxDef (cs : List Char) : Option GcRuntime.CtxDef :=
  let mk := fun (lims : List Char) (pol : Char) (flags : List Char) =>
    let policy? : Option GcRuntime.GCPolicy :=
      if pol == 'd' then some .default else if pol == 's' then some .share else if pol == 'i' then some .isolate else none
    policy?.map fun policy => ({ cpu := lims.contains 'c', mem := lims.contains 'm', millis := lims.contains 't',
                                 policy := policy, flags := !flags.isEmpty } : GcRuntime.CtxDef)
  match splitChars '.' cs with
  | [_, lims, [pol]] => mk lims pol []
  -- optional 4th part: required compliance flags, a subset of "cimt" (cpusafe, iosafe, memsafe, timesafe)
  | [_, lims, [pol], flags] => mk lims pol flags
  | _ => none

def showLogAt (evs : List TEv) (depths : List Nat) (raised : List Bool) : List String :=
  ((evs.zip depths).zip raised).filterMap fun ((e, d), r) => match e with
    | .fin _ v _ => some ("f" ++ toString v.key ++ "@" ++ toString d ++ (if r then "!" else ""))
    | .rel _ v _ => some ("r" ++ toString v.key ++ "@" ++ toString d)
    | _ => none

/-- `<k>o` = the original of value k, `<k>c` = the clone of k most recently handed to a finaliser -/
def resolve (s : GcRuntime.Rt) (cs : List Char) : Option Obj :=
  match cs.reverse with
  | t :: rk =>
    match natOfChars? rk.reverse with
    | none => none
    | some k =>
      if t == 'o' then some { key := k, id := 0, clone := false }
      else if t == 'c' then
        match s.log.reverse.find? (fun e => match e with | .fin _ v _ => v.key == k | _ => false) with
        | some (.fin _ v _) => some v
        | _ => none
      else none
  | [] => none

/-- the event part of an output: strip `|w…` and `~…` -/
def eventPart (out : String) : String :=
  String.ofList ((out.toList.takeWhile (fun c => c != '|' && c != '~')))

def usagePart (out : String) : Option String :=
  match splitChars '~' out.toList with
  | [_, n] => some (String.ofList n)
  | _ => none

/-- observed `f3@1!,r3@1` → level-A tokens -/
def obsTokens (out : String) : List String :=
  let ev := eventPart out
  if ev == "-" || ev == "" || ev == "panic" || ev == "0" || ev == "1" || ev == "X" || ev == "n" then [] else
  (ev.splitOn ",").map fun s =>
    let cs := s.toList.filter (fun c => c != '!')
    match cs with
    | 'f' :: r => "G:" ++ String.ofList r
    | 'r' :: r => "R:" ++ String.ofList r
    | _ => "?"

/-- key of a `G:3@1` token -/
def tokKey (t : String) : Option String :=
  match t.toList with
  | 'G' :: ':' :: r => some (String.ofList (r.takeWhile (fun c => c != '@')))
  | _ => none

def markFlagsOf (isTable releasable : Bool) (m : Nat) : Bool × Bool :=
  if isTable then GcRuntime.tableMarkFlags (m ≥ 2) else GcRuntime.userDataMarkFlags releasable (m ≥ 1) (m ≥ 2)

def flagsNum (fr : Bool × Bool) : Nat := (if fr.1 then 1 else 0) + (if fr.2 then 2 else 0)

def rtLine (toks : List String) (impl : List String) : String := Id.run do
  let mut s : GcRuntime.Rt := {}
  -- open contexts, innermost first: (is a CallContext, isolates per spec, CPU tracked, fins in the model's log at its beginning)
  let mut ctx : List (Bool × Bool × Bool × Nat) := []
  let mut kinds : List (Nat × Bool × Bool) := []   -- value ↦ (is a table, releasable)
  let mut outs : Array String := #[]
  let mut atoks : Array String := #[]   -- level-A tokens built from the IMPLEMENTATION's outputs
  let mut implLeft := impl
  -- the environment assumption, checked on the history: names (`3o`, `3c`) the program still references;
  -- a Go finaliser may only fire for a dropped object, and only referenced objects can be re-marked
  let mut refs : List String := []
  let mut disciplined := true
  let mut reachable : Array String := #[]
  -- values of which a clone was handed out by a close-time finalisation while they were still referenced
  let mut tainted : List String := []
  for tok in toks do
    let implOut := implLeft.head?.getD "-"
    let obs := obsTokens implOut
    implLeft := implLeft.drop 1
    if s.fatal then
      outs := outs.push "X"
      continue
    let before := s.log.length
    let warnedBefore := s.warned.length
    let panicsBefore := (s.pools.map (·.panics)).foldl (· + ·) 0
    let mut fireOut : Option String := none
    let mut usage : Option Nat := none
    let mut ok := true
    let finsNow := fun (st : GcRuntime.Rt) => (st.log.filter fun e => match e with | .fin _ _ _ => true | _ => false).length
    if tok == "st" then
      s := GcRuntime.rstep s (.prim .step); atoks := atoks ++ obs
      -- level A, never finalised while reachable: a pending finalisation observed on the implementation
      for t in obs do
        match tokKey t with
        | some k =>
          if refs.contains (k ++ "o") || refs.contains (k ++ "c") then
            reachable := reachable.push ((if tainted.contains k then "finalized-while-reachable-through-the-original-after-close-time-finalisation:"
              else "finalized-while-reachable:") ++ k)
        | none => pure ()
    else if tok == "cl" then
      s := GcRuntime.rstep s .close; atoks := (atoks.push "C") ++ obs |>.push "Z"; ctx := []
    else if tok == "ed" || tok == "ee" || tok == "ek" then
      match ctx with
      | [] => ok := false
      | (isCall, iso, tracked, fins0) :: rest =>
        if !isCall then ok := false
        ctx := rest
        if iso then
          s := GcRuntime.rstep s (if tok == "ek" then .callKilled else .callDone)
          atoks := (atoks.push "Q") ++ obs |>.push (if tok == "ek" then "E:killed" else if tok == "ee" then "E:error" else "E:done")
        else
          s := GcRuntime.rstep s (.prim .popShare)
          atoks := (atoks ++ obs).push "e"
        usage := some (if tracked then finsNow s - fins0 else 0)
        match usagePart implOut with
        | some n => atoks := atoks.push ("U:" ++ n)
        | none => pure ()
    else if tok.startsWith "cc." || tok.startsWith "pu." then
      match parseCtxDef tok.toList with
      | none => ok := false
      | some d =>
        let isCall := tok.startsWith "cc."
        let iso := GcRuntime.isolates d
        let tracked := d.cpu || d.millis || ctx.any (fun c => c.2.2.1)
        s := GcRuntime.rstep s (.pushCtx d)
        ctx := (isCall, iso, tracked, finsNow s) :: ctx
        let t := if tracked then "1" else "0"
        atoks := atoks.push ((if isCall then (if iso then "B:" else "S:") else (if iso then "P:" else "p:")) ++ t)
    else
      match splitChars ':' tok.toList with
      | [h, a] =>
        match h with
        | ['m', 'k', 'T', m] | ['m', 'k', 'U', _, m] =>
          match natOfChars? a with
          | some k =>
            let isTable := h.length == 4
            let releasable := !isTable && h[3]! == '1'
            let mk := m.toNat - '0'.toNat
            let fr := markFlagsOf isTable releasable mk
            kinds := (k, isTable, releasable) :: kinds
            let owner := match s.live with | _ :: rest => GcRuntime.markingIdx rest k | [] => 0
            s := GcRuntime.rstep s (.prim (.mark { key := k, id := 0, clone := false } fr.1 fr.2))
            if mk == 3 then s := GcRuntime.rstep s (.prim (.setRaise k))
            refs := (toString k ++ "o") :: refs
            if implOut != "panic" && implOut != "X" && flagsNum fr != 0 then
              atoks := atoks.push ("M:" ++ toString k ++ ":" ++ toString (flagsNum fr) ++ ":" ++ toString owner)
          | none => ok := false
        | ['r', 'm', m] =>
          let mk := m.toNat - '0'.toNat
          let kstr := String.ofList (a.take (a.length - 1))
          let kind := kinds.find? (fun x => toString x.1 == kstr)
          let fr := match kind with
            | some (_, isTable, releasable) => markFlagsOf isTable releasable mk
            | none => (false, false)
          let owner := match s.live, natOfChars? kstr.toList with
            | _ :: rest, some kk => GcRuntime.markingIdx rest kk
            | _, _ => 0
          match resolve s a with
          | some ob =>
            -- the metatable (hence whether `__gc` raises) only reaches the pool's clone if the value is marked again
            s := GcRuntime.rstep s (.prim (.mark ob fr.1 fr.2))
            if flagsNum fr != 0 && mk == 3 then s := GcRuntime.rstep s (.prim (.setRaise ob.key))
          | none => fireOut := some "n"
          -- level A goes by what the implementation says it did, not by the model
          if implOut != "n" then
            if !refs.contains (String.ofList a) then disciplined := false
            if implOut != "panic" && implOut != "X" && flagsNum fr != 0 then
              atoks := atoks.push ("M:" ++ kstr ++ ":" ++ toString (flagsNum fr) ++ ":" ++ toString owner)
        | ['f', 'i'] =>
          match resolve s a with
          | some ob =>
            fireOut := some (if s.pools.any (fun p => p.goReg.contains ob) then "1" else "0")
            s := GcRuntime.rstep s (.prim (.fire ob))
          | none => fireOut := some "n"
          if implOut != "n" && refs.contains (String.ofList a) then disciplined := false
        | ['d', 'r'] => refs := refs.filter (fun x => x != String.ofList a)
        | _ => ok := false
      | _ => ok := false
    if !ok then return "bad-line"
    let evs := showLogAt (s.log.drop before) (s.ran.drop before) (s.raised.drop before)
    let nw := s.warned.length - warnedBefore
    let d := (if evs.isEmpty then "-" else ",".intercalate evs) ++ (if nw > 0 then "|w" ++ toString nw else "")
      ++ (match usage with | some n => "~" ++ toString n | none => "")
    if tok == "cl" || tok == "ed" || tok == "ee" then
      for t in obs do
        match tokKey t with
        | some k => if refs.contains (k ++ "o") || refs.contains (k ++ "c") then tainted := k :: tainted
        | none => pure ()
    -- every value the implementation handed to a finaliser is referenced (the harness keeps the clone) until dropped
    for t in obs do
      match tokKey t with
      | some k => refs := (k ++ "c") :: refs.filter (fun x => x != k ++ "c")
      | none => pure ()
    let panicked := (s.pools.map (·.panics)).foldl (· + ·) 0 > panicsBefore
    outs := outs.push (if s.fatal then "X" else if panicked then "panic" else match fireOut with | some f => f | none => d)
  -- a history that dies in runtime.SetFinalizer or uses the runtime after Close is not judged further
  let usedAfterClose := impl.contains "panic"
  let verdict :=
    if s.fatal then "fatal" else if usedAfterClose then "ok" else if !disciplined then "undisciplined"
    else
      -- a second finalisation of a value whose CLONE was handed out by a close-time finalisation while the
      -- original was still referenced belongs to the same (recorded) family as `reachable` below
      let v0 := luaLine atoks.toList
      let v := " ".intercalate ((v0.splitOn " ").map fun r =>
        match r.splitOn ":" with
        | ["finalized-twice", k] =>
          if tainted.contains k then "finalized-while-reachable-through-the-original-after-close-time-finalisation:" ++ k else r
        | _ => r)
      if reachable.isEmpty then v
      else (if v == "ok" then "bad" else v) ++ " " ++ " ".intercalate reachable.toList
  return " ".intercalate outs.toList ++ " ; ds=" ++ (if s.fatal then "1" else "0") ++ " ; A=" ++ verdict

def handle (line : String) : String :=
  let toks := (line.splitOn " ").filter (fun s => !s.isEmpty)
  let body := toks.takeWhile (fun s => s != "=")
  match body with
  | "pool" :: ops => poolLine ops ++ " ; A=" ++ poolA ops (implOuts toks)
  | "rt" :: ops => rtLine ops (implOuts toks)
  | "lua" :: ops => luaLine ops
  | _ => "bad-line"

def main (_args : List String) : IO UInt32 := do
  let stdin ← IO.getStdin
  let stdout ← IO.getStdout
  forEachLine stdin fun line => stdout.putStrLn (handle line)
  return 0

end Oracle.C18
