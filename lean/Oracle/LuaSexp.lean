/-
  Oracle.LuaSexp — S-expression reader for the programs emitted by harness/cmd/c01 and the
  canonical printing of run outcomes.  (Unverified glue: part of the trusted base.)
-/
import Oracle.Proto
import GoluaVerif.Spec.Lua
namespace Oracle.LuaSexp
open GoluaVerif GoluaVerif.Spec GoluaVerif.Spec.Lua Oracle

inductive Sexp where
  | atom (s : String)
  | list (l : List Sexp)
  deriving Inhabited

/-- tokenise and build the tree with an explicit stack -/
def parseSexp (s : String) : Except String Sexp := Id.run do
  let mut stack : Array (Array Sexp) := #[#[]]
  let mut cur : String := ""
  let mut err : Option String := none
  for c in s.toList do
    if c == '(' || c == ')' || c == ' ' then
      if !cur.isEmpty then
        stack := stack.modify (stack.size - 1) (·.push (.atom cur))
        cur := ""
      if c == '(' then
        stack := stack.push #[]
      else if c == ')' then
        if stack.size < 2 then
          err := some "unbalanced )"
        else
          let top := stack.back!
          stack := stack.pop
          stack := stack.modify (stack.size - 1) (·.push (.list top.toList))
    else
      cur := cur.push c
  if !cur.isEmpty then
    stack := stack.modify (stack.size - 1) (·.push (.atom cur))
  match err with
  | some e => return .error e
  | none =>
    if stack.size ≠ 1 then return .error "unbalanced ("
    match stack[0]!.toList with
    | [x] => return .ok x
    | _ => return .error "expected exactly one S-expression"

def binOpOf : String → Option BinOp
  | "add" => some .add | "sub" => some .sub | "mul" => some .mul | "div" => some .div
  | "mod" => some .mod | "pow" => some .pow | "idiv" => some .idiv
  | "band" => some .band | "bor" => some .bor | "bxor" => some .bxor | "shl" => some .shl | "shr" => some .shr
  | "concat" => some .concat
  | "eq" => some .eq | "ne" => some .ne | "lt" => some .lt | "le" => some .le | "gt" => some .gt | "ge" => some .ge
  | "and" => some .and | "or" => some .or
  | _ => none

def unOpOf : String → Option UnOp
  | "neg" => some .neg | "not" => some .not | "len" => some .len | "bnot" => some .bnot
  | _ => none

def natOf (s : String) : Except String Nat :=
  match s.toNat? with
  | some n => .ok n
  | none => .error s!"bad number {s}"

def bytesOf (s : String) : Except String ByteArray :=
  match parseHexBytes s with
  | some b => .ok b
  | none => .error s!"bad hex {s}"

def atomOf : Sexp → Except String String
  | .atom s => .ok s
  | .list _ => .error "expected an atom"

mutual
partial def toExpr : Sexp → Except String Expr
  | .atom "nil" => pure .nil
  | .atom "true" => pure .true
  | .atom "false" => pure .false
  | .atom "..." => pure .vararg
  | .list [.atom "i", .atom n] => match n.toInt? with
    | some v => pure (.int (BitVec.ofInt 64 v))
    | none => throw s!"bad int {n}"
  | .list [.atom "f", .atom h] => match parseHexNat h with
    | some v => pure (.flt (F64.ofBits (UInt64.ofNat v)))
    | none => throw s!"bad float {h}"
  | .list [.atom "s"] => pure (.str ByteArray.empty)
  | .list [.atom "s", .atom h] => do pure (.str (← bytesOf h))
  | .list [.atom "var", .atom n] => pure (.var n)
  | .list [.atom "idx", t, k] => do pure (.index (← toExpr t) (← toExpr k))
  | .list (.atom "call" :: f :: args) => do pure (.call (← toExpr f) (← args.mapM toExpr))
  | .list (.atom "meth" :: o :: .atom n :: args) => do
    pure (.method (← toExpr o) (← bytesOf n) (← args.mapM toExpr))
  | .list [.atom "fn", .list ps, .atom va, .list body] => do
    pure (.func (.mk (← ps.mapM atomOf) (va == "1") (← body.mapM toStmt)))
  | .list [.atom "bin", .atom op, a, b] => match binOpOf op with
    | some o => do pure (.bin o (← toExpr a) (← toExpr b))
    | none => throw s!"bad binop {op}"
  | .list [.atom "un", .atom op, a] => match unOpOf op with
    | some o => do pure (.un o (← toExpr a))
    | none => throw s!"bad unop {op}"
  | .list [.atom "par", e] => do pure (.paren (← toExpr e))
  | .list (.atom "tbl" :: fs) => do pure (.table (← fs.mapM toField))
  | .atom a => throw s!"bad expression atom {a}"
  | .list (.atom h :: _) => throw s!"bad expression form {h}"
  | _ => throw "bad expression"

partial def toField : Sexp → Except String Field
  | .list [.atom "pos", e] => do pure (.pos (← toExpr e))
  | .list [.atom "kv", k, v] => do pure (.named (← toExpr k) (← toExpr v))
  | _ => throw "bad field"

partial def toFuncBody : Sexp → Except String FuncBody
  | .list [.atom "fn", .list ps, .atom va, .list body] => do
    pure (.mk (← ps.mapM atomOf) (va == "1") (← body.mapM toStmt))
  | _ => throw "bad function body"

partial def toStmt : Sexp → Except String Stmt
  | .list [.atom "local", .atom ln, .list names, .list es] => do
    let ns ← names.mapM fun
      | .list [.atom n, .atom a] => match a with
        | "-" => pure (n, Attrib.none)
        | "const" => pure (n, Attrib.const)
        | "close" => pure (n, Attrib.close)
        | _ => throw s!"bad attrib {a}"
      | _ => throw "bad local name"
    pure (.local_ (← natOf ln) ns (← es.mapM toExpr))
  | .list [.atom "assign", .atom ln, .list ts, .list es] => do
    pure (.assign (← natOf ln) (← ts.mapM toExpr) (← es.mapM toExpr))
  | .list [.atom "callS", .atom ln, e] => do pure (.callS (← natOf ln) (← toExpr e))
  | .list [.atom "do", .list b] => do pure (.do_ (← b.mapM toStmt))
  | .list [.atom "while", .atom ln, c, .list b] => do pure (.while_ (← natOf ln) (← toExpr c) (← b.mapM toStmt))
  | .list [.atom "repeat", .list b, .atom ln, c] => do pure (.repeat_ (← b.mapM toStmt) (← natOf ln) (← toExpr c))
  | .list [.atom "if", .atom ln, c, .list t, .list e] => do
    pure (.if_ (← natOf ln) (← toExpr c) (← t.mapM toStmt) (← e.mapM toStmt))
  | .list [.atom "fornum", .atom ln, .atom v, e1, e2, e3, .list b] => do
    let s3 ← match e3 with
      | .atom "-" => pure none
      | e => do pure (some (← toExpr e))
    pure (.fornum (← natOf ln) v (← toExpr e1) (← toExpr e2) s3 (← b.mapM toStmt))
  | .list [.atom "forin", .atom ln, .list ns, .list es, .list b] => do
    pure (.forin (← natOf ln) (← ns.mapM atomOf) (← es.mapM toExpr) (← b.mapM toStmt))
  | .list [.atom "localfn", .atom ln, .atom n, f] => do pure (.localfn (← natOf ln) n (← toFuncBody f))
  | .list [.atom "return", .atom ln, .list es] => do pure (.return_ (← natOf ln) (← es.mapM toExpr))
  | .list [.atom "break"] => pure .break_
  | .list [.atom "goto", .atom l] => pure (.goto_ l)
  | .list [.atom "label", .atom l] => pure (.label l)
  | .list (.atom h :: _) => throw s!"bad statement form {h}"
  | _ => throw "bad statement"
end

def toBlock : Sexp → Except String Block
  | .list b => b.mapM toStmt
  | _ => throw "bad block"

/-! ### hardware floats for the parameters of the semantics -/

def fop (f : Float → Float → Float) (a b : F64) : F64 :=
  F64.ofBits (f (Float.ofBits (F64.toBits a)) (Float.ofBits (F64.toBits b))).toBits

def nativeFloatOps : FloatOps where
  add := fop (· + ·)
  sub := fop (· - ·)
  mul := fop (· * ·)
  div := fop (· / ·)
  pow := fop Float.pow

/-! ### printing -/

def showVal : Val → String
  | .nil => "n"
  | .bool true => "t"
  | .bool false => "F"
  | .int n => "i" ++ toString n.toInt
  | .flt f => (V.flt (F64.toBits f)).show
  | .str s => "s" ++ hexOfBytes s
  | .table _ => "otable"
  | .func _ => "ofunction"
  | .builtin _ => "ofunction"
  | .thread _ => "othread"
  | .wrapfn _ => "ofunction"

def valOfV : V → Val
  | .nil => .nil
  | .bool b => .bool b
  | .int n => .int n
  | .flt b => .flt (F64.ofBits b)
  | .str s => .str s
  | .other _ => .nil

def showVals (vs : List Val) : String := ",".intercalate (vs.map showVal)

def showTrace (t : Array (List Val)) : String := "|".intercalate (t.toList.map showVals)

def showOutcome : Outcome → String
  | .outOfFuel => "oof"
  | .done rets s => s!"T[{showTrace s.trace}] ok[{showVals rets}]"
  | .error v s => s!"T[{showTrace s.trace}] err[{showVal v}]"
  | .unsupported w => "unsup " ++ w

end Oracle.LuaSexp
