import GoluaVerif.Base.I64
import GoluaVerif.Base.F64
