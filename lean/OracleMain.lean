import Oracle.C01
import Oracle.C02
import Oracle.C03
import Oracle.C04
import Oracle.C05
import Oracle.C06
import Oracle.C07
import Oracle.C08
import Oracle.C09
import Oracle.C10
import Oracle.C11
import Oracle.C12
import Oracle.C13
import Oracle.C14
import Oracle.C15
import Oracle.C16
import Oracle.C17
import Oracle.C18
import Oracle.C19
import Oracle.C20

def main (args : List String) : IO UInt32 := do
  match args with
  | "c01" :: rest => Oracle.C01.main rest
  | "c02" :: rest => Oracle.C02.main rest
  | "c03" :: rest => Oracle.C03.main rest
  | "c04" :: rest => Oracle.C04.main rest
  | "c05" :: rest => Oracle.C05.main rest
  | "c06" :: rest => Oracle.C06.main rest
  | "c07" :: rest => Oracle.C07.main rest
  | "c08" :: rest => Oracle.C08.main rest
  | "c09" :: rest => Oracle.C09.main rest
  | "c10" :: rest => Oracle.C10.main rest
  | "c11" :: rest => Oracle.C11.main rest
  | "c12" :: rest => Oracle.C12.main rest
  | "c13" :: rest => Oracle.C13.main rest
  | "c14" :: rest => Oracle.C14.main rest
  | "c15" :: rest => Oracle.C15.main rest
  | "c16" :: rest => Oracle.C16.main rest
  | "c17" :: rest => Oracle.C17.main rest
  | "c18" :: rest => Oracle.C18.main rest
  | "c19" :: rest => Oracle.C19.main rest
  | "c20" :: rest => Oracle.C20.main rest
  | _ => do
    IO.eprintln "usage: oracle c01..c20 [args]  (reads protocol lines on stdin)"
    return 2
