import Oracle.C02

def main (args : List String) : IO UInt32 := do
  match args with
  | "c02" :: rest => Oracle.C02.main rest
  | _ => do
    IO.eprintln "usage: oracle <mode> [args]   (modes: c02 …)"
    return 2
